"""Regenerate MANIFEST.json from the list of built checks (keeps it schema-valid at all times)."""
import json, os, sys
ROOT = os.path.dirname(os.path.abspath(__file__))
BUILT = json.load(open(os.path.join(ROOT, "checks", "built.json")))
props = [json.loads(l) for l in open(os.path.join(ROOT, "properties.jsonl"))]
PY = "PYTHONPATH=/verif /venv/bin/python"
checks, na = [], []
for p in props:
    pid = p["id"]
    b = BUILT.get(pid)
    if not b:
        na.append({"property_id": pid, "reason": "check not built yet in this session (the technique applies; see DESIGN.md section 5) - not claimed until its check exists and is quiet on the unchanged tree"})
        continue
    if b.get("not_applicable"):
        na.append({"property_id": pid, "reason": b["not_applicable"]})
        continue
    mod = f"checks.{pid.lower()}"
    checks.append({
        "property_id": pid,
        "quick_cmd": f"{PY} -m {mod} --tier quick",
        "thorough_cmd": f"{PY} -m {mod} --tier thorough",
        "evidence_file": f"/verif/evidence/{pid}.json",
        "replay_cmd_template": f"{PY} -m dst.replay {{path}}",
        "engine": "dst",
        "level_claimed": {"category": "exploration", "text": b["level_text"], "design_ref": b.get("design_ref", f"DESIGN.md section 5, {pid}")},
        "level_note": b["level_note"],
        "technique": b["technique"],
    })
man = {
    "version": 1,
    "setup_cmd": f"{PY} -m dst.selfcheck",
    "hooks": {
        "guard": "PRIMAITE_VERIF",
        "enable": "no source hooks: every seam (uuid4, secrets, datetime.now, HOME, logging, torch import) is installed from outside by dst/seams.py in harness processes only; PRIMAITE_VERIF=1 is exported to those processes but /repo never reads it",
        "baseline_off_cmd": "cd /repo && /venv/bin/python -m pytest -ra -q -p no:cacheprovider --timeout=900 --continue-on-collection-errors",
        "source_commits": [],
        "add_only": True,
    },
    "engines": [{"name": "dst", "path": "/verif/dst", "serves_properties": [c["property_id"] for c in checks], "kind_free_text": "deterministic simulation with fault injection: seeded scenario/op/fault generation, one process per run forked from a zygote with fixed PYTHONHASHSEED, seams for uuid/secrets/wall clock, invariant monitors + reference models, ddmin shrinking, replay in a fresh interpreter"}],
    "checks": checks,
    "not_applicable": na,
    "notes": "See DESIGN.md. Exit codes: 0 held (KNOWN-FINDING lines allowed), 1 VIOLATION, 2 harness error. known_findings.json lists recorded findings and fixed: entries.",
}
json.dump(man, open(os.path.join(ROOT, "MANIFEST.json"), "w"), indent=1)
import jsonschema
jsonschema.validate(man, json.load(open("/root/.vp/MANIFEST.schema.json")))
for c in man["checks"]:
    if c["property_id"] in ("C03", "C04", "C20"):
        c["replay_cmd_template"] = f"{PY} -m dst.replay_diff {{path}}"
json.dump(man, open(os.path.join(ROOT, "MANIFEST.json"), "w"), indent=1)
print("MANIFEST ok:", len(checks), "checks,", len(na), "not claimed")
