#!/bin/sh
# debug: run generated-scenario E1 job for a seed with given monitors: tools_seed.sh SEED [monitors-json] [extra-json-fields]
S=$1; M=${2:-'["c01","c02","c18"]'}; X=${3:-}
echo "{\"id\":1,\"fn\":\"dst.driver_env:run_e1\",\"args\":{\"seed\":$S,\"profile\":{},\"n_ops\":45,\"monitors\":$M $X}}" | ./tools_one.sh | /venv/bin/python tools_show.py
