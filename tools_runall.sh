#!/bin/sh
# run every registered check's quick tier once; print one line per check
cd /verif
for c in $(/venv/bin/python -c "import json; print(' '.join(sorted(json.load(open('checks/built.json')))))"); do
  m=checks.$(echo $c | tr A-Z a-z)
  s=$(date +%s)
  out=$(PYTHONPATH=/verif timeout 1500 /venv/bin/python -m $m --tier ${1:-quick} 2>&1); rc=$?
  echo "$c exit=$rc $(( $(date +%s) - s ))s :: $(echo "$out" | tail -1)"
  [ $rc -ne 0 ] && echo "$out" | grep -E "VIOLATION|HARNESS|^  " | head -8
done
