#!/bin/sh
# debug helper: run one job (JSON on stdin) in a fresh interpreter
export HOME=${VERIF_DEBUG_HOME:-/tmp/x/home}; mkdir -p $HOME
export PYTHONPATH=/verif:/repo/src PYTHONHASHSEED=${PYTHONHASHSEED:-0} PYTHONWARNINGS=ignore PRIMAITE_VERIF=1
exec /venv/bin/python -m dst.execjob "$@"
