"""C17 - database: password-gated connections, connection-gated queries, restorable data (E2 bench, 3-5 hosts).

Reference model: service (password, node on, operating state, capacity, issued-and-open connection ids, file health,
health of the last backup known to have been stored), clients and their configured passwords, block flags.
Ops: connect with right / wrong / no password, SELECT / INSERT / DELETE / ENCRYPT / unknown queries on live, closed and
forged connection ids (DatabaseClientConnection objects built from a made-up, closed or foreign id), disconnect, client
uninstall, service stop/start/pause/resume/restart/fix/disable/enable, backup, restore, node power events on server,
client and backup host, interface disable/enable (path block) and ticks, with several clients up to the capacity.
Oracles (safety): see check_* below; one bounded-liveness clause for restore."""
from __future__ import annotations

from typing import Any, Dict, List, Optional

from dst.core import Violation, jsonable
from dst.driver_net import E2Run


class C17Run(E2Run):
    prop = "C17"

    def profile(self) -> Dict:
        return {"topologies": ["lan", "lan", "routed"], "max_hosts_per_subnet": 3, "tight_links": 0.0, "random_acl_rules": (0, 0), "permit_all_rule": 1.0, "durations": [1, 2], "avoid": ["listen_on_ports"], "initial_files": 0.2}

    def tweak_scenario(self):
        """Every host gets a database-client (so there are several clients); the roles stay as generated."""
        roles = self.inv.get("roles", {})
        db_ip = self.inv["hosts"][roles["db"]]["ip"]
        for n in self.scenario["simulation"]["network"]["nodes"]:
            if n["type"] in ("computer", "server", "printer"):
                apps = n.setdefault("applications", [])
                if n["hostname"] == roles["db"]:
                    # a node delivers a port's traffic to ONE software item and client-type applications use the
                    # service's port: the server host carries the service only (as in the shipped scenarios)
                    n["applications"] = [a for a in apps if a["type"] not in ("database-client", "dos-bot", "data-manipulation-bot", "ransomware-script")]
                    for t in ("database-client", "dos-bot", "data-manipulation-bot", "ransomware-script"):
                        self.inv["hosts"][roles["db"]]["applications"].pop(t, None)
                    continue
                if not any(a["type"] == "database-client" for a in apps):
                    apps.append({"type": "database-client", "options": {"db_server_ip": db_ip}})

    # ------------------------------------------------------------------------------------------------------------------
    def after_build(self):
        roles = self.inv["roles"]
        self.server = self.node(roles["db"])
        self.backup = self.node(roles["ftp"])
        self.svc = self.server.software_manager.software["database-service"]
        self.clients = [n for n in self.network.nodes.values() if n.__class__.__name__ in ("Computer", "Server", "Printer") and "database-client" in n.software_manager.software]
        self.same_host_backup = self.server is self.backup or self.svc.backup_server_ip is None
        self.m = {"password": self.svc.password, "open": set(), "closed": set(), "backup_health": None, "capacity": self.svc.max_sessions}
        self.client_pw: Dict[str, Optional[str]] = {n.config.hostname: n.software_manager.software["database-client"].server_password for n in self.clients}
        self.conns: List[Any] = []  # DatabaseClientConnection objects handed out, by index
        self.conn_owner: List[str] = []
        self.blocked: Dict[str, bool] = {}
        self.calls.update({"knob": self.call_knob, "connect": self.call_connect, "query": self.call_query, "forged": self.call_forged, "disconnect": self.call_disconnect, "backup": self.call_backup, "restore": self.call_restore})

    # -- model helpers ---------------------------------------------------------------------------------------------------
    def file_health(self) -> Optional[str]:
        f = self.svc.db_file
        return f.health_status.name if f is not None else None

    def server_up(self) -> bool:
        return self.server.operating_state.name == "ON" and self.svc.operating_state.name == "RUNNING" and "database-service" in self.server.software_manager.software

    def client_up(self, node) -> bool:
        c = node.software_manager.software.get("database-client")
        return node.operating_state.name == "ON" and c is not None and c.operating_state.name == "RUNNING"

    def nic_up(self, node) -> bool:
        return any(nic.enabled for nic in node.network_interface.values())

    def path_ok(self, node) -> bool:
        """Necessary conditions for any exchange client <-> server (no routing model: interfaces and power only)."""
        return self.nic_up(node) and self.nic_up(self.server) and node.operating_state.name == "ON" and self.server.operating_state.name == "ON"

    def sync_open(self):
        """Connections the service itself has dropped (restart of the node, stop...) are not asserted to be open."""

    # -- calls -----------------------------------------------------------------------------------------------------------------
    def call_knob(self, capacity: int):
        self.svc.max_sessions = capacity  # public attribute of IOSoftware
        self.m["capacity"] = capacity

    def call_connect(self, client: str):
        node = self.node(client)
        app = node.software_manager.software.get("database-client")
        if app is None or app.server_ip_address is None:
            return
        pre_server_up, pre_path, pre_client = self.server_up(), self.path_ok(node), self.client_up(node)
        n_open = len(self.svc.connections)
        health_before = self.file_health()
        conn = app.get_new_connection()
        if conn is not None:
            self.probe("c17_connect_ok")
            pw = self.client_pw.get(client)
            reasons = []
            if pw != self.m["password"]:
                reasons.append(f"client password {pw!r} != service password {self.m['password']!r}")
            if not pre_server_up:
                reasons.append("service not RUNNING on a powered-on node")
            if not pre_path or not pre_client:
                reasons.append("client or path down")
            if n_open >= self.m["capacity"]:
                reasons.append(f"{n_open} open connections, capacity {self.m['capacity']}")
            if reasons:
                raise Violation("C17", "connection-opened-without-valid-conditions", f"{client} obtained a connection although: {'; '.join(reasons)}", sig="connection-opened-without-valid-conditions:" + reasons[0].split(" ")[0], detail={"reasons": reasons})
            self.conns.append(conn)
            self.conn_owner.append(client)
            self.m["open"].add(conn.connection_id)
        else:
            self.probe("c17_connect_refused")
        self.after_any(health_before, None, "connect")

    def _query(self, conn, sql: str, legit: bool, what: str):
        node = conn.parent_node
        pre_up, pre_path = self.server_up(), self.path_ok(node)
        health_before = self.file_health()
        is_open = conn.connection_id in self.m["open"] and conn.connection_id in self.svc.connections
        ok = conn.query(sql)
        health_after = self.file_health()
        if ok:
            self.probe("c17_query_ok")
            if not legit or not is_open:
                raise Violation("C17", "query-ran-on-unissued-or-closed-connection", f"{what}: {sql} on connection {('forged/closed' if not legit else 'not open')} was answered as successful", sig=f"query-ran-on-unissued-or-closed-connection:{what}", detail={})
            if not pre_up or not pre_path:
                raise Violation("C17", "query-succeeded-while-unavailable", f"{sql} succeeded although the service was not RUNNING on a powered-on node or the path was down", sig="query-succeeded-while-unavailable", detail={})
            if sql == "SELECT" and health_before == "COMPROMISED":
                raise Violation("C17", "read-of-compromised-data-succeeded", "SELECT succeeded while the database file is COMPROMISED", sig="read-of-compromised-data-succeeded", detail={})
        else:
            self.probe("c17_query_refused")
        if health_after != health_before:
            self.probe("c17_query_changed_health")
            if not legit or not is_open:
                raise Violation("C17", "file-health-changed-by-query-on-bad-connection", f"{what}: {sql} changed the database file {health_before} -> {health_after} although the connection id was {'forged or closed' if not legit else 'not open'}", sig=f"file-health-changed-by-query-on-bad-connection:{what}", detail={})
            want = {"DELETE": "COMPROMISED", "ENCRYPT": "CORRUPT"}.get(sql)
            if want is None or health_after != want:
                raise Violation("C17", "unexpected-health-after-query", f"{sql} changed the database file {health_before} -> {health_after}", sig=f"unexpected-health-after-query:{sql}", detail={})
            if not pre_up:
                raise Violation("C17", "query-succeeded-while-unavailable", f"{sql} changed the file although the service was not available", sig="query-succeeded-while-unavailable:effect", detail={})

    def call_query(self, conn: int, sql: str):
        if conn >= len(self.conns):
            return
        self._query(self.conns[conn], sql, legit=True, what="issued")

    def call_forged(self, client: str, kind: str, sql: str, ref: int = 0):
        from primaite.simulator.system.applications.database_client import DatabaseClientConnection

        node = self.node(client)
        if kind == "made-up":
            cid = f"forged-{self.op_index}"
        elif kind == "closed" and self.m["closed"]:
            cid = sorted(self.m["closed"])[ref % len(self.m["closed"])]
        elif kind == "foreign" and self.conns:
            c = self.conns[ref % len(self.conns)]
            if self.conn_owner[ref % len(self.conns)] == client or c.connection_id not in self.m["open"]:
                return
            # another client's live id: the service only knows ids, so this one is 'issued and open' - not asserted
            return
        else:
            return
        app = node.software_manager.software.get("database-client")
        if app is None or app.server_ip_address is None:
            return  # (a client that has never been pointed at a server has nowhere to send a forged query)
        conn = DatabaseClientConnection(connection_id=cid, parent_node=node)
        self.probe("c17_forged_query")
        self._query(conn, sql, legit=False, what=kind)

    def call_disconnect(self, conn: int):
        if conn >= len(self.conns):
            return
        c = self.conns[conn]
        owner = self.node(self.conn_owner[conn])
        deliverable = self.server_up() and owner is not None and self.path_ok(owner) and self.client_up(owner) and "database-client" in owner.software_manager.software
        was_open = c.connection_id in self.m["open"] and c.connection_id in self.svc.connections and getattr(c, "is_active", False)
        c.disconnect()
        if c.connection_id not in self.svc.connections:
            self.m["open"].discard(c.connection_id)
            self.m["closed"].add(c.connection_id)
            self.probe("c17_disconnected")
        elif was_open and deliverable:
            # the client asked for the connection to be closed and nothing stood in the way of telling the service
            raise Violation("C17", "closed-connection-still-open", f"connection {conn} of {self.conn_owner[conn]} was disconnected by its client (client, service and path up) but the service still lists it as open", sig="closed-connection-still-open", detail={})

    def call_backup(self):
        self._transfers = getattr(self, "_transfers", 0) + 1
        hb = self.file_health()
        up = self.server_up()
        ok = self.svc.backup_database()
        if ok:
            self.probe("c17_backup_ok")
            if not up:
                raise Violation("C17", "backup-succeeded-while-unavailable", "backup_database() succeeded although the service was not RUNNING on a powered-on node", sig="backup-succeeded-while-unavailable", detail={})
            self.m["backup_health"] = hb
        self.after_any(hb, None, "backup")

    def backup_reachable(self) -> bool:
        b = self.backup
        ftp = b.software_manager.software.get("ftp-server")
        return b.operating_state.name == "ON" and ftp is not None and ftp.operating_state.name == "RUNNING" and self.nic_up(b) and self.nic_up(self.server)

    def call_restore(self):
        fresh_tick = getattr(self, "_transfers", 0) == 0  # links carry a limited volume per tick; a 5 MB file is large
        self._transfers = getattr(self, "_transfers", 0) + 1
        hb = self.file_health()
        up = self.server_up()
        reach = self.backup_reachable()
        ok = self.svc.restore_backup()
        ha = self.file_health()
        if not ok and hb is not None and ha is None:
            raise Violation("C17", "failed-restore-destroyed-the-data", f"restore_backup() failed and the database file (was {hb}) no longer exists", sig="failed-restore-destroyed-the-data", detail={})
        if ok:
            self.probe("c17_restore_ok")
            if not up or (not reach and not self.same_host_backup):
                raise Violation("C17", "restore-succeeded-while-unavailable", f"restore_backup() succeeded although {'the service was not available' if not up else 'the backup host was off, its ftp-server not running or an interface down'}", sig="restore-succeeded-while-unavailable:" + ("service" if not up else "backup-host"), detail={})
            if self.m["backup_health"] == "GOOD" and ha != "GOOD":
                raise Violation("C17", "restore-of-healthy-backup-not-good", f"restore of a backup taken while the data was GOOD left the file {ha}", sig="restore-of-healthy-backup-not-good", detail={})
        elif fresh_tick and up and reach and self.m["backup_health"] == "GOOD" and not self.same_host_backup and self.svc.health_state_actual.name in ("GOOD", "COMPROMISED"):
            # bounded liveness: everything needed is there, nothing blocks - the restore must work
            self.probe("c17_restore_expected")
            raise Violation("C17", "restore-failed-although-possible", f"restore_backup() failed although a healthy backup is stored, the service and the backup host are up (file {hb})", sig="restore-failed-although-possible", detail={})
        self.after_any(hb, None, "restore")

    def after_any(self, health_before, health_after, what: str):
        pass

    # -- requests ---------------------------------------------------------------------------------------------------------------
    def do_req(self, req: List, label: str = "req"):
        hb = self.file_health()
        resp = super().do_req(req, label)
        meta = self._meta or {}
        if meta.get("kind") == "configure" and resp.status == "success":
            self.client_pw[req[2]] = meta["password"] or self.client_pw.get(req[2])
        if meta.get("kind") == "uninstall_client" and resp.status == "success":
            for i, c in enumerate(self.conns):
                if self.conn_owner[i] == req[2] and c.connection_id not in self.svc.connections:
                    self.m["open"].discard(c.connection_id)
                    self.m["closed"].add(c.connection_id)
        # the service drops its connections itself in some states; ids it no longer lists are closed
        for cid in list(self.m["open"]):
            if cid not in self.svc.connections:
                self.m["open"].discard(cid)
                self.m["closed"].add(cid)
        ha = self.file_health()
        if ha != hb and not (req[3:6] == ["service", "database-service", "fix"]):
            if not (len(req) > 3 and req[3] == "file_system"):
                raise Violation("C17", "file-health-changed-by-unrelated-request", f"request {req[2:]} changed the database file {hb} -> {ha}", sig="file-health-changed-by-unrelated-request", detail={})
        return resp

    def do_op(self, op: List) -> Any:
        self._meta = op[3] if op[0] == "req" and len(op) > 3 else None
        return super().do_op(op)

    def on_tick(self):
        self._transfers = 0
        for cid in list(self.m["open"]):
            if cid not in self.svc.connections:
                self.m["open"].discard(cid)
                self.m["closed"].add(cid)
        if self.t == 1:
            self.m["backup_health"] = None  # the automatic backup at tick 1 may or may not have worked: unknown

    # -- workload ------------------------------------------------------------------------------------------------------------
    def workload(self):
        r = self.ops_rng
        n_ops = int(self.args.get("n_ops", 90))
        self.emit(["call", "knob", {"capacity": r.choice([1, 2, 3, 100])}])
        pw_pool = [None, "arcd", "pw1", "wrong"]
        srv = self.server.config.hostname
        for _ in range(n_ops):
            c = r.choice(self.clients)
            cn = c.config.hostname
            x = r.random()
            if x < 0.15:
                self.emit(["tick"])
            elif x < 0.32:
                self.emit(["call", "connect", {"client": cn}])
            elif x < 0.55 and self.conns:
                self.emit(["call", "query", {"conn": r.randrange(len(self.conns)), "sql": r.choice(["SELECT", "SELECT", "INSERT", "DELETE", "ENCRYPT", "DROP"])}])
            elif x < 0.63:
                self.emit(["call", "forged", {"client": cn, "kind": r.choice(["made-up", "closed", "closed"]), "sql": r.choice(["SELECT", "DELETE", "ENCRYPT", "INSERT"]), "ref": r.randrange(50)}])
            elif x < 0.69 and self.conns:
                self.emit(["call", "disconnect", {"conn": r.randrange(len(self.conns))}])
            elif x < 0.74:
                pw = r.choice(pw_pool + [self.m["password"], self.m["password"]])
                self.emit(["req", ["network", "node", cn, "application", "database-client", "configure", {"server_ip_address": None, "server_password": pw}], "configure", {"kind": "configure", "password": pw}])
            elif x < 0.82:
                self.emit(["req", ["network", "node", srv, "service", "database-service", r.choice(["stop", "start", "pause", "resume", "restart", "fix", "disable", "enable"])], "F4_service", {"kind": "service"}])
            elif x < 0.86:
                self.emit(["call", "backup", {}])
            elif x < 0.91:
                self.emit(["call", "restore", {}])
            elif x < 0.95:
                tgt = r.choice([srv, cn, self.backup.config.hostname])
                self.emit(["req", ["network", "node", tgt, r.choice(["shutdown", "startup", "reset"])], "F1_power", {"kind": "power"}])
            elif x < 0.98:
                tgt = r.choice([srv, cn, self.backup.config.hostname])
                self.emit(["req", ["network", "node", tgt, "network_interface", 1, r.choice(["disable", "enable"])], "F2_nic", {"kind": "nic"}])
            else:
                self.emit(["req", ["network", "node", cn, "software_manager", "application", r.choice(["uninstall", "install"]), "database-client"], "F4_install", {"kind": "uninstall_client"}])


def run(args: Dict) -> Dict:
    return C17Run(args).run()
