"""C06 - blocking is effective: a host cut off from another cannot affect it (E2 bench, twin worlds + passive monitor).

Two simulations ("attack" world and "idle" world) are built in one process from the same generated scenario. One run:
  phase 1  the same seeded traffic in both worlds: attacker A, victim B and bystanders use their applications against
           each other (warm ARP caches, open database connections, remote sessions, C2 channels, learned switch tables)
  block    one blocking mechanism, chosen by the harness' own path model over the scenario's link list, is put in place
           in both worlds on EVERY path from A to B (all generated topologies are trees, so one cut is a cut of all):
           a deny rule of a seeded shape at a router / in one of the two firewall lists the traffic crosses, the implicit
           deny of an emptied list, a disabled interface / router port / switch port, a removed link, B or a device on
           the path powered off
  phase 2  attack world: A runs its whole repertoire against B; idle world: A does nothing. Ticks in both.
Oracle after every phase-2 op: B's describe_state() is the same in both worlds up to a renaming of opaque identifiers.
For protocol- or port-specific deny rules only the attacks that travel on the denied protocol/port are run.
The passive monitor c06 checks on every frame that a router/firewall which decided to deny it neither forwards it nor
hands it to its own software."""
from __future__ import annotations

import copy
from typing import Any, Dict, List, Optional, Tuple

from dst.core import Canon, GeneratorDefect, Violation, exc_summary, jsonable
from dst.diff import first_difference
from dst.driver_net import E2Run

RED_TCP_DB = ["data-manipulation-bot", "ransomware-script", "database-client", "dos-bot"]


def _abstract(path: str) -> str:
    import re

    parts = [p for p in path.split("/") if p]
    out = []
    for p in parts:
        if re.fullmatch(r"<ID\d+>", p):
            p = "<id>"
        out.append(re.sub(r"\d+", "#", p))
    return "/".join(out[:5])


class C06Run(E2Run):
    prop = "C06"
    default_monitors = ["c06"]

    def profile(self) -> Dict:
        return {"topologies": ["lan", "routed", "routed2", "firewall", "firewall2", "firewall2", "wireless"], "max_hosts_per_subnet": 2, "tight_links": 0.0, "random_acl_rules": (0, 2), "permit_all_rule": 1.0, "users": 0.5, "initial_files": 0.6, "avoid": ["listen_on_ports", "redeclare_system_software", "tight_links"]}

    # -- scenario: attacker and victim software ---------------------------------------------------------------------
    def tweak_scenario(self):
        r = self.ops_rng
        hosts = self.inv["hosts"]
        names = sorted(hosts)
        if len(names) < 2:
            raise GeneratorDefect("fewer than two hosts")
        roles = self.inv.get("roles", {})
        b = roles.get("db") if roles.get("db") in hosts and r.random() < 0.7 else r.choice(names)
        a = r.choice([n for n in names if n != b])
        self.inv["c06"] = {"a": a, "b": b}
        nodes = {n["hostname"]: n for n in self.scenario["simulation"]["network"]["nodes"]}
        ip_a, ip_b = hosts[a]["ip"], hosts[b]["ip"]
        pw = roles.get("db_password") if roles.get("db") == b else None

        def have(cfg, key, t):
            return any(e["type"] == t for e in cfg.get(key, []))

        def add(cfg, key, t, opts=None):
            if not have(cfg, key, t):
                e = {"type": t}
                if opts:
                    e["options"] = opts
                cfg.setdefault(key, []).append(e)

        cb, ca = nodes[b], nodes[a]
        add(cb, "services", "database-service", {})
        add(cb, "services", "web-server")
        add(cb, "services", "ftp-server")
        pwo = {"server_password": pw} if pw else {}
        # (an application already declared for A keeps its generated options: it may then point at another host)
        add(ca, "applications", "database-client", {"db_server_ip": ip_b, **pwo})
        add(ca, "applications", "data-manipulation-bot", {"server_ip": ip_b, "payload": r.choice(["DELETE", "ENCRYPT", "INSERT"]), "port_scan_p_of_success": 1.0, "data_manipulation_p_of_success": 1.0, **pwo})
        add(ca, "applications", "ransomware-script", {"server_ip": ip_b, **pwo})
        add(ca, "applications", "dos-bot", {"target_ip_address": ip_b, "port_scan_p_of_success": 1.0, "dos_intensity": 1.0, "max_sessions": r.choice([3, 10]), "repeat": True})
        for e in ca.get("applications", []):
            if e["type"] in ("database-client",):
                e.setdefault("options", {})["db_server_ip"] = ip_b
            if e["type"] in ("data-manipulation-bot", "ransomware-script"):
                e.setdefault("options", {})["server_ip"] = ip_b
            if e["type"] == "dos-bot":
                e.setdefault("options", {})["target_ip_address"] = ip_b
        # the twin worlds share the process-wide random stream: success probabilities are made certain either way
        for n in nodes.values():
            for e in n.get("applications", []):
                keys = {"data-manipulation-bot": ("port_scan_p_of_success", "data_manipulation_p_of_success"), "dos-bot": ("port_scan_p_of_success",)}.get(e["type"], ())
                for k in keys:
                    if e.setdefault("options", {}).get(k) not in (0.0, 1.0):
                        e["options"][k] = r.choice([0.0, 1.0, 1.0])
        c2 = r.choice(["none", "a_server", "a_beacon"])
        has_c2 = any(e["type"].startswith("c2-") for n in nodes.values() for e in n.get("applications", []))
        if c2 != "none" and not has_c2:
            srv, bec = (ca, cb) if c2 == "a_server" else (cb, ca)
            add(srv, "applications", "c2-server")
            add(bec, "applications", "c2-beacon", {"c2_server_ip_address": ip_a if c2 == "a_server" else ip_b, "keep_alive_frequency": r.choice([1, 2, 3])})
            self.inv["c06"]["c2"] = c2
        else:
            self.inv["c06"]["c2"] = "none"

    # -- twin worlds -----------------------------------------------------------------------------------------------------
    def build(self):
        from primaite.game.game import PrimaiteGame

        super().build()
        self.twin = PrimaiteGame.from_config(copy.deepcopy(self.scenario))
        self.twin.simulation.pre_timestep(self.t)
        self.worlds = {"attack": self.game, "idle": self.twin}

    def wnode(self, world: str, name: str):
        return self.worlds[world].simulation.network.get_node_by_hostname(name)

    def after_build(self):
        c = self.inv["c06"]
        self.a, self.b = c["a"], c["b"]
        self.ip = {n: h["ip"] for n, h in self.inv["hosts"].items()}
        self.blocked: Optional[Dict] = None
        self.calls.update({"block": self.call_block, "ping": self.call_ping, "query": self.call_query, "ftp_send": self.call_ftp_send, "wait_off": self.call_wait_off})
        self.path = self.find_path(self.a, self.b)
        self.compare("after construction", strict=False)

    def find_path(self, a: str, b: str) -> List[Tuple[str, int, str, int]]:
        """The unique path A -> B over the scenario's link list as (node, out_port, next node, in_port) hops."""
        adj: Dict[str, List[Tuple[int, str, int]]] = {}
        for l in self.inv["links"]:
            adj.setdefault(l["a"], []).append((l["a_port"], l["b"], l["b_port"]))
            adj.setdefault(l["b"], []).append((l["b_port"], l["a"], l["a_port"]))
        # wireless routers reach each other over the air (access point = port 1 on both): a hop without a link object
        air = sorted(n for n, r_ in self.inv["routers"].items() if r_.get("wireless"))
        self.air_hops = set()
        for x in air:
            for y in air:
                if x != y:
                    adj.setdefault(x, []).append((1, y, 1))
                    self.air_hops.add((x, y))
        paths: List[List] = []

        def dfs(n, seen, hops):
            if n == b:
                paths.append(list(hops))
                return
            for op, m, ip_ in adj.get(n, []):
                if m not in seen and (m == b or m not in self.inv["hosts"]):
                    dfs(m, seen | {m}, hops + [(n, op, m, ip_)])

        dfs(a, {a}, [])
        if len(paths) != 1:
            raise GeneratorDefect(f"expected exactly one physical path from {a} to {b}, found {len(paths)}")
        return paths[0]

    # -- state comparison ----------------------------------------------------------------------------------------------
    def b_state(self, world: str) -> Any:
        return Canon().obj(jsonable(self.wnode(world, self.b).describe_state()))

    def compare(self, when: str, strict: bool = True):
        sa, si = self.b_state("attack"), self.b_state("idle")
        d = first_difference(sa, si)
        if d is None:
            return
        path, va, vi = d
        if self.blocked is None:
            # before the block both worlds have seen the same ops: a difference is the harness' (or the code's
            # nondeterminism's) problem, not a blocking violation
            raise GeneratorDefect(f"twin worlds diverged before the block {when}: {path}: {va!r} != {vi!r}")
        raise Violation(
            "C06",
            "victim-state-differs",
            f"{when}: every path {self.a} -> {self.b} is blocked by {self.blocked['desc']}, yet {self.b}'s state differs between the world where {self.a} attacks and the world where it idles: {path}: {str(va)[:120]!r} (attack) != {str(vi)[:120]!r} (idle)",
            sig=f"victim-state-differs:{self.blocked['kind']}:{_abstract(path)}",
            detail={"block": jsonable(self.blocked), "path": path, "attack": jsonable(va), "idle": jsonable(vi)},
        )

    # -- executing ops -------------------------------------------------------------------------------------------------------
    def req_in(self, world: str, req: List):
        try:
            return self.worlds[world].simulation.apply_request(copy.deepcopy(req))
        except Violation:
            raise
        except Exception as e:  # noqa: BLE001
            info = exc_summary(e)
            raise Violation("C05", "request-raises", f"apply_request({req}) raised {info['type']}: {info['text']}", sig=f"request-raises:{info['type']}:{info['where']}", detail={"exc": info, "request": jsonable(req)})

    def scope(self, label: str) -> List[str]:
        return ["attack"] if label.startswith("A:") else ["attack", "idle"]

    def do_req(self, req: List, label: str = "req"):
        resp = None
        for m in self.monitors:
            m.before_req(self, req, label)
        for w in self.scope(label):
            r_ = self.req_in(w, req)
            resp = resp or r_
        if getattr(resp, "status", None) == "success" and label.startswith("A:"):
            self.probe("c06_attack_request_succeeded_locally")
        for m in self.monitors:
            m.after_req(self, req, label, resp)
        self.compare(f"after {'attacker ' if label.startswith('A:') else ''}request {req[2:]}")
        return resp

    def do_call(self, name: str, kwargs: Dict):
        out = super().do_call(name, kwargs)
        for m in self.monitors:
            m.after_req(self, [], "call", None)
        self.compare(f"after {name} {kwargs}")
        return out

    def do_tick(self):
        for m in self.monitors:
            m.before_tick(self)
        self.t += 1
        self.ticks += 1
        try:
            for g in self.worlds.values():
                g.simulation.apply_timestep(self.t)
            for g in self.worlds.values():
                g.simulation.pre_timestep(self.t)
        except Violation:
            raise
        except Exception as e:  # noqa: BLE001
            info = exc_summary(e)
            raise Violation("C01", "tick-raises", f"advancing the simulation one tick raised {info['type']}: {info['text']}", sig=f"tick-raises:{info['type']}:{info['where']}", detail={"exc": info})
        for m in self.monitors:
            m.after_tick(self)
        self.compare("after tick")

    # -- calls ---------------------------------------------------------------------------------------------------------
    def call_ping(self, scope: str, src: str, dst: str):
        for w in self.scope(scope):
            self.wnode(w, src).ping(self.ip[dst], pings=1)

    def call_query(self, scope: str, src: str, sql: str):
        for w in self.scope(scope):
            app = self.wnode(w, src).software_manager.software.get("database-client")
            if app is not None:
                app.query(sql)

    def call_ftp_send(self, scope: str, src: str, dst: str, folder: str, file: str):
        for w in self.scope(scope):
            n = self.wnode(w, src)
            cl = n.software_manager.software.get("ftp-client")
            if cl is None:
                continue
            if n.file_system.get_file(folder, file) is None and n.operating_state.name == "ON":
                n.file_system.create_file(file_name=file, folder_name=folder)
            cl.send_file(dest_ip_address=self.ip[dst], src_folder_name=folder, src_file_name=file, dest_folder_name="upload", dest_file_name=file)

    def call_wait_off(self, node: str):
        """Tick both worlds until the node is OFF (bounded)."""
        for _ in range(12):
            if all(self.wnode(w, node).operating_state.name == "OFF" for w in self.worlds):
                return
            self.do_tick()
        raise GeneratorDefect(f"{node} did not reach OFF within 12 ticks of its shutdown")

    def acl_lists(self, dev, hop_in: Tuple, hop_out: Tuple) -> List[str]:
        """Names of the rule lists a frame A -> B crosses at this device (harness' reading of the documentation)."""
        if dev.__class__.__name__ != "Firewall":
            return ["acl"]
        zone = {1: "external", 2: "internal", 3: "dmz"}
        zin, zout = zone[hop_in[3]], zone[hop_out[1]]
        first = "external_inbound_acl" if zin == "external" else f"{zin}_outbound_acl"
        second = "external_outbound_acl" if zout == "external" else f"{zout}_inbound_acl"
        return [first, second]

    def call_block(self, kind: str, where: Dict):
        from primaite.simulator.network.hardware.nodes.network.router import ACLAction

        desc = kind
        for w, g in self.worlds.items():
            net = g.simulation.network
            if kind in ("nic_a", "nic_b"):
                n = self.wnode(w, self.a if kind == "nic_a" else self.b)
                n.network_interface[1].disable()
                desc = f"the disabled network interface of {n.config.hostname}"
            elif kind == "port":
                n = self.wnode(w, where["node"])
                n.network_interface[where["port"]].disable()
                desc = f"disabled port {where['port']} of {where['node']}"
            elif kind == "link":
                x, y = self.wnode(w, where["a"]), self.wnode(w, where["b"])
                link = x.network_interface[where["a_port"]]._connected_link
                if link is None or link is not y.network_interface[where["b_port"]]._connected_link:
                    raise GeneratorDefect(f"no link between {where}")
                net.remove_link(link)
                desc = f"the removed link {where['a']}:{where['a_port']} - {where['b']}:{where['b_port']}"
            elif kind == "power":
                n = self.wnode(w, where["node"])
                n.power_off()
                desc = f"{where['node']} being powered off"
            elif kind == "acl":
                dev = self.wnode(w, where["node"])
                acl = getattr(dev, where["list"]) if where["list"] != "acl" else dev.acl
                shape = where["shape"]
                if shape == "implicit":
                    if acl.implicit_action.name != "DENY":
                        raise GeneratorDefect("implicit action is not DENY")
                    for i in range(len(acl.acl)):
                        if acl.acl[i] is not None:
                            acl.remove_rule(i)
                else:
                    if acl.acl[0] is not None:
                        acl.remove_rule(0)
                    f = where["fields"]
                    ok = acl.add_rule(action=ACLAction.DENY, protocol=f.get("protocol"), src_ip_address=f.get("src_ip"), src_wildcard_mask=f.get("src_wc"), dst_ip_address=f.get("dst_ip"), dst_wildcard_mask=f.get("dst_wc"), src_port=f.get("src_port"), dst_port=f.get("dst_port"), position=0)
                    if not ok:
                        raise GeneratorDefect(f"could not add the blocking rule {f}")
                desc = f"{where['node']}/{where['list']}: {shape} {where.get('fields') or ''}"
            else:
                raise GeneratorDefect(f"unknown block {kind}")
        if kind == "power" and where.get("wait", True):
            self.call_wait_off(where["node"])
        self.blocked = {"kind": kind + (":" + where.get("shape", "") if kind == "acl" else ""), "where": where, "desc": desc, "partial": where.get("partial")}
        self.fault("block_" + self.blocked["kind"].replace(":", "_"))

    # -- generation ----------------------------------------------------------------------------------------------------
    def action_request(self, name: str, **opts) -> List:
        from primaite.game.agent.actions.abstract import AbstractAction

        cls = AbstractAction._registry[name]
        return cls.form_request(cls.ConfigSchema(type=name, **opts) if "type" in cls.ConfigSchema.model_fields else cls.ConfigSchema(**opts))

    def attack_ops(self, r, src: str, dst: str, label: str, only: Optional[str] = None) -> List[List]:
        """One seeded thing src does towards dst, as ops. only = 'tcp5432' / 'tcp' / None restricts to what travels on it."""
        base = ["network", "node", src]
        ipd = self.ip[dst]
        node = self.wnode("attack", src)
        apps = set(node.software_manager.software)
        users = [("admin", "admin")] + [(u["username"], u["password"]) for u in self.inv["hosts"][dst].get("users", [])]
        c2 = self.inv["c06"].get("c2")
        kinds = []
        for a_ in RED_TCP_DB:
            if a_ in apps:
                kinds += [("exec", a_)] * 2
        if "database-client" in apps:
            kinds += [("query", s) for s in ("INSERT", "DELETE", "ENCRYPT", "SELECT")]
        if only != "tcp5432":
            kinds += [("login", None), ("login", None), ("command", None), ("command", None), ("ftp", None)]
            if "web-browser" in apps and only is None:
                kinds.append(("exec", "web-browser"))  # (resolves its URL over UDP first)
            if c2 == "a_beacon" and src == self.a and "c2-beacon" in apps:
                kinds += [("exec", "c2-beacon")] * 2
            if c2 == "a_server" and src == self.a and "c2-server" in apps:
                kinds += [("c2", "ransomware_configure"), ("c2", "ransomware_launch"), ("c2", "terminal"), ("c2", "exfil")]
            kinds.append(("port_scan", None))
        if only is None:
            kinds += [("ping", None), ("ping", None), ("ping_scan", None), ("recon", None)]
        k, arg = r.choice(kinds)
        if k == "exec":
            return [["req", base + ["application", arg, "execute"], label]]
        if k == "query":
            return [["call", "query", {"scope": label, "src": src, "sql": arg}]]
        if k == "ping":
            return [["call", "ping", {"scope": label, "src": src, "dst": dst}]]
        if k == "login":
            u, p = r.choice(users)
            if r.random() < 0.2:
                p = "wrong"
            return [["req", self.action_request("node-session-remote-login", node_name=src, remote_ip=ipd, username=u, password=p), label]]
        if k == "command":
            cmd = r.choice([["file_system", "create", "folder", f"planted_{r.randint(0, 3)}"], ["software_manager", "application", "install", "ransomware-script"], ["service", "database-service", "stop"], ["file_system", "delete", "folder", "database"], ["shutdown"]])
            return [["req", self.action_request("node-send-remote-command", node_name=src, remote_ip=ipd, command=cmd), label]]
        if k == "ftp":
            return [["call", "ftp_send", {"scope": label, "src": src, "dst": dst, "folder": "loot", "file": f"f{r.randint(0, 2)}.txt"}]]
        if k == "ping_scan":
            tgt = r.choice([ipd, ipd.rsplit(".", 1)[0] + ".0/28"])
            return [["req", self.action_request("node-nmap-ping-scan", source_node=src, target_ip_address=tgt, show=False), label]]
        if k == "port_scan":
            opts: Dict[str, Any] = {"source_node": src, "target_ip_address": ipd, "show": False}
            if only == "tcp":
                opts.update({"target_protocol": "tcp", "target_port": r.choice([80, 5432, 21, 22])})
            elif r.random() < 0.5:
                opts.update({"target_protocol": r.choice(["tcp", "udp"]), "target_port": r.choice([80, 5432, 21, 22, 53])})
            return [["req", self.action_request("node-nmap-port-scan", **opts), label]]
        if k == "recon":
            return [["req", self.action_request("node-network-service-recon", source_node=src, target_ip_address=ipd, target_protocol=r.choice(["tcp", "udp"]), target_port=r.choice([80, 5432, 21, 53]), show=False), label]]
        if k == "c2":
            if arg == "ransomware_configure":
                return [["req", self.action_request("c2-server-ransomware-configure", node_name=src, server_ip_address=ipd, payload="ENCRYPT"), label]]
            if arg == "ransomware_launch":
                return [["req", self.action_request("c2-server-ransomware-launch", node_name=src), label]]
            if arg == "terminal":
                return [["req", self.action_request("c2-server-terminal-command", node_name=src, commands=["file_system", "create", "folder", "c2_planted"], ip_address=None, username="admin", password="admin"), label]]
            return [["req", self.action_request("c2-server-data-exfiltrate", node_name=src, username="admin", password="admin", target_ip_address=ipd, target_file_name="database.db", target_folder_name="database", exfiltration_folder_name="exfil"), label]]
        raise GeneratorDefect(k)

    def local_ops(self, r, label: str, allow_power: bool, allow_nic: bool) -> List[List]:
        """Things A does to itself between attacks (never lifts the block: see choose_block)."""
        base = ["network", "node", self.a]
        opts = [["req", base + ["application", r.choice(RED_TCP_DB), r.choice(["close", "fix", "scan"])], label]]
        if allow_power:
            opts.append(["req", base + [r.choice(["shutdown", "startup", "reset"])], label])
        if allow_nic:
            opts.append(["req", base + ["network_interface", 1, r.choice(["disable", "enable"])], label])
        return [r.choice(opts)]

    def choose_block(self, r) -> Tuple[str, Dict]:
        hops = self.path
        mids = [(i, h[2]) for i, h in enumerate(hops[:-1])]  # devices strictly between A and B with their entering hop
        l3 = [(i, n) for i, n in mids if n in self.inv["routers"] or n in self.inv["firewalls"]]
        kinds = ["nic_a", "nic_b", "port", "port", "link", "power"]
        if l3:
            kinds += ["acl"] * 8
        k = r.choice(kinds)
        if k in ("nic_a", "nic_b"):
            return k, {}
        if k == "port":
            i, n = r.choice(mids)
            side = r.choice(["in", "out"])
            return k, {"node": n, "port": hops[i][3] if side == "in" else hops[i + 1][1]}
        if k == "link":
            wired = [h for h in hops if (h[0], h[2]) not in self.air_hops]
            h = r.choice(wired)
            return k, {"a": h[0], "a_port": h[1], "b": h[2], "b_port": h[3]}
        if k == "power":
            # a node that has accepted its shutdown is being powered off: its interfaces are down from that moment on,
            # so the attack may start at once (wait False) or after the node has reached OFF
            return k, {"node": r.choice([n for _, n in mids] + [self.b, self.b]), "wait": r.random() < 0.5}
        i, n = r.choice(l3)
        dev = self.wnode("attack", n)
        lst = r.choice(self.acl_lists(dev, hops[i], hops[i + 1]))
        ipa, ipb = self.ip[self.a], self.ip[self.b]
        shape = r.choice(["src_exact", "src_exact_wc0", "src_range", "src_range", "dst_exact", "dst_range", "both", "any", "implicit", "tcp", "tcp5432", "tcp5432"])
        live = dev.acl if lst == "acl" else getattr(dev, lst)
        if shape == "implicit" and live.implicit_action.name != "DENY":
            shape = "any"
        f: Dict[str, Any] = {}
        partial = None
        wc = r.choice(["0.0.0.1", "0.0.0.3", "0.0.0.15", "0.0.0.255", "0.0.255.255", "0.255.255.255"])
        if shape == "src_exact":
            f = {"src_ip": ipa}
        elif shape == "src_exact_wc0":
            f = {"src_ip": ipa, "src_wc": "0.0.0.0"}
        elif shape == "src_range":
            f = {"src_ip": ipa, "src_wc": wc}
        elif shape == "dst_exact":
            f = {"dst_ip": ipb}
        elif shape == "dst_range":
            f = {"dst_ip": ipb, "dst_wc": wc}
        elif shape == "both":
            f = {"src_ip": ipa, "src_wc": r.choice([None, wc]), "dst_ip": ipb, "dst_wc": r.choice([None, wc])}
        elif shape == "tcp":
            f = {"protocol": "tcp", "src_ip": r.choice([None, ipa])}
            partial = "tcp"
        elif shape == "tcp5432":
            f = {"protocol": "tcp", "dst_port": 5432, "dst_ip": r.choice([None, ipb])}
            partial = "tcp5432"
        return "acl", {"node": n, "list": lst, "shape": shape, "fields": {k_: v for k_, v in f.items() if v is not None}, "partial": partial}

    def workload(self):
        r = self.ops_rng
        hosts = sorted(self.inv["hosts"])
        others = [h for h in hosts if h not in (self.a, self.b)]
        # phase 1: the same in both worlds
        for _ in range(r.randint(0, 14)):
            x = r.random()
            if x < 0.45:
                for op in self.attack_ops(r, self.a, self.b, "both"):
                    self.emit(op)
            elif x < 0.6 and others:
                src = r.choice(others)
                for op in self.attack_ops(r, src, r.choice([self.b, self.a]), "both"):
                    self.emit(op)
            elif x < 0.7:
                self.emit(["call", "ping", {"scope": "both", "src": self.b, "dst": self.a}])
            else:
                self.emit(["tick"])
        kind, where = self.choose_block(r)
        self.emit(["call", "block", {"kind": kind, "where": where}])
        only = where.get("partial")
        # phase 2: A attacks in one world only
        for _ in range(int(self.args.get("n_ops", 40))):
            x = r.random()
            if x < 0.7:
                for op in self.attack_ops(r, self.a, self.b, "A:attack", only=only):
                    self.emit(op)
                self.probe("c06_attack_after_block")
            elif x < 0.8 and only is None:
                # (A's power cycle re-enables its interface and its own interface toggles would lift a nic_a block)
                for op in self.local_ops(r, "A:local", allow_power=kind != "nic_a", allow_nic=kind != "nic_a"):
                    self.emit(op)
            else:
                self.emit(["tick"])

    def extra(self) -> Dict:
        return {"block": jsonable(self.blocked) if getattr(self, "blocked", None) else None}


def run(args: Dict) -> Dict:
    if args.get("driver") == "e1":
        from dst.driver_env import run_e1

        return run_e1(args)
    return C06Run(args).run()
