"""C08 - packets reach exactly their addressee via best routes, and forwarding ends (E2 bench, reference forwarding model).

Seeded op sequences on generated routed topologies (one router, two routers in line with static / default / overlapping
routes - including default routes that point at each other -, firewall with DMZ, plain LAN): pings and database
connections between ordered host pairs, pings to addresses nobody owns, extra routes added through the public route
table API (covering family of prefixes around the destination, metrics 0/1/5, right and wrong next hops, every insertion
order), interface / port / power toggles, ticks. Oracles:
  route choice   every RouteTable.find_best_route call made by anything is compared with the reference longest-prefix /
                 lowest-metric / default-last choice (wrapper; plus an exhaustive sweep over all ordered triples of a
                 7-route family on a scratch table)
  addressee      a unicast frame is handed to a session manager (i.e. to software) only on a node that owns its
                 destination address (wrapper)
  ttl / ending   node-level receipts of one unicast frame object have strictly falling TTL, no frame with exhausted TTL
                 is processed, no frame is received more than 64 times, and handling never ends in RecursionError
  path           the layer-3 devices an echo request visits are the ones the reference walk (default gateway at hosts,
                 best route at routers) predicts
  liveness       when the reference walk finds a permitted path both ways between powered-on hosts, the ping succeeds -
                 with cold and with warm caches
"""
from __future__ import annotations

import ipaddress
import itertools
from typing import Any, Dict, List, Optional, Tuple

from dst.core import GeneratorDefect, Violation, exc_summary, jsonable, recursion_cycle
from dst.driver_net import E2Run
from dst.models.route import Topo, best_routes


class C08Run(E2Run):
    prop = "C08"

    def profile(self) -> Dict:
        return {"topologies": ["routed", "routed2", "routed2", "firewall", "firewall2", "lan", "wireless", "dualgw"], "max_hosts_per_subnet": 2, "tight_links": 0.0, "random_acl_rules": (0, 2), "permit_all_rule": 0.85, "l2_loop": 0.5, "avoid": ["listen_on_ports", "tight_links"]}

    def tweak_scenario(self):
        r = self.ops_rng
        # now and then a host whose default gateway is another host (hosts do not forward)
        hosts = self.inv["hosts"]
        nodes = {n["hostname"]: n for n in self.scenario["simulation"]["network"]["nodes"]}
        if r.random() < 0.15:
            by_subnet: Dict[str, List[str]] = {}
            for hn, h in hosts.items():
                by_subnet.setdefault(h["subnet"], []).append(hn)
            groups = [g for g in by_subnet.values() if len(g) >= 2]
            if groups:
                g = r.choice(groups)
                x, y = r.sample(g, 2)
                nodes[x]["default_gateway"] = hosts[y]["ip"]
                hosts[x]["gateway"] = hosts[y]["ip"]
                self.inv.setdefault("c08", {})["gateway_is_host"] = [x, y]

    # -- wrappers ------------------------------------------------------------------------------------------------------
    def install_wrappers(self):
        from primaite.simulator.network.hardware.nodes.host.host_node import HostNode
        from primaite.simulator.network.hardware.nodes.network.firewall import Firewall
        from primaite.simulator.network.hardware.nodes.network.router import RouteTable, Router
        from primaite.simulator.system.core.session_manager import SessionManager

        run = self
        self._undo: List[Tuple[Any, str, Any]] = []
        self.pending: Optional[Violation] = None
        self.trace: Dict[int, Dict] = {}  # id(frame) -> {"frame": frame, "hops": [(node, ttl)]}

        def patch(owner, attr, make):
            orig = owner.__dict__[attr]
            setattr(owner, attr, make(orig))
            self._undo.append((owner, attr, orig))

        def flag(v: Violation):
            if run.pending is None:
                run.pending = v

        def wrap_best(orig):
            def find_best_route(rt, destination_ip):
                got = orig(rt, destination_ip)
                routes = [(str(x.address), str(x.subnet_mask), str(x.next_hop_ip_address), x.metric) for x in rt.routes]
                default = str(rt.default_route.next_hop_ip_address) if rt.default_route else None
                idx, use_default = best_routes(routes, default, str(destination_ip))
                run.probe("c08_route_choice_checked")
                if idx:
                    ok = any(got is rt.routes[i] for i in idx)
                    if len(routes) >= 3:
                        run.probe("c08_route_choice_among_3plus")
                elif use_default:
                    ok = got is rt.default_route
                    run.probe("c08_default_route_used")
                else:
                    ok = got is None
                if not ok:
                    gi = next((i for i, x in enumerate(rt.routes) if x is got), None)
                    flag(Violation("C08", "route-choice-differs-from-reference", f"find_best_route({destination_ip}) over {routes} default {default}: code chose {'route ' + str(gi) if gi is not None else ('default' if got is not None and got is rt.default_route else got)}, reference accepts {idx if idx else ('default' if use_default else 'no route')}", sig="route-choice-differs-from-reference:" + ("tie" if len(idx) > 1 or (idx and any(routes[i][1] == routes[idx[0]][1] and i != idx[0] for i in range(len(routes)))) else "lpm" if idx else "default"), detail={"routes": routes, "default": default, "dst": str(destination_ip)}))
                return got

            return find_best_route

        def owns(node, ip) -> bool:
            for i in node.network_interface.values():
                a = getattr(i, "ip_address", None)
                if a is not None and (a == ip or ip == i.ip_network.broadcast_address):
                    return True
            return False

        def wrap_session(orig):
            def receive_frame(sm, frame, from_network_interface):
                node = getattr(sm, "node", None)
                if node is not None and frame.ip is not None and frame.ethernet.dst_mac_addr != "ff:ff:ff:ff:ff:ff" and not frame.ip.dst_ip_address.is_loopback:
                    run.probe("c08_unicast_handed_to_software")
                    if not owns(node, frame.ip.dst_ip_address):
                        kind = "arp" if getattr(frame, "is_arp", False) else frame.ip.protocol
                        flag(Violation("C08", "handed-to-software-on-non-addressee", f"{node.config.hostname} (addresses {[str(getattr(i, 'ip_address', '')) for i in node.network_interface.values()]}) handed a unicast {kind} frame {frame.ip.src_ip_address} -> {frame.ip.dst_ip_address} to its session manager", sig=f"handed-to-software-on-non-addressee:{node.__class__.__name__}:{kind}", detail={}))
                return orig(sm, frame, from_network_interface)

            return receive_frame

        def wrap_node_receive(orig):
            def receive_frame(node, frame, from_network_interface):
                if frame.ip is not None and frame.ethernet.dst_mac_addr != "ff:ff:ff:ff:ff:ff" and node.operating_state.name == "ON":
                    rec = run.trace.setdefault(id(frame), {"frame": frame, "hops": []})
                    if rec["frame"] is frame:
                        ttl = frame.ip.ttl
                        if ttl < 1:
                            flag(Violation("C08", "exhausted-ttl-frame-processed", f"{node.config.hostname} processes a frame {frame.ip.src_ip_address} -> {frame.ip.dst_ip_address} whose TTL is {ttl}", sig="exhausted-ttl-frame-processed", detail={}))
                        if rec["hops"] and ttl >= rec["hops"][-1][1]:
                            flag(Violation("C08", "ttl-not-lowered-by-hop", f"frame {frame.ip.src_ip_address} -> {frame.ip.dst_ip_address}: TTL {rec['hops'][-1][1]} at {rec['hops'][-1][0]} and {ttl} at the next receiver {node.config.hostname}", sig="ttl-not-lowered-by-hop", detail={}))
                        rec["hops"].append((node.config.hostname, ttl))
                        if len(rec["hops"]) > 1:
                            run.probe("c08_forwarded_frame_ttl_checked")
                        if len(rec["hops"]) > 64:
                            flag(Violation("C08", "frame-received-more-than-64-times", f"frame {frame.ip.src_ip_address} -> {frame.ip.dst_ip_address} has been received {len(rec['hops'])} times", sig="frame-received-more-than-64-times", detail={}))
                return orig(node, frame, from_network_interface)

            return receive_frame

        patch(RouteTable, "find_best_route", wrap_best)
        patch(SessionManager, "receive_frame", wrap_session)
        patch(HostNode, "receive_frame", wrap_node_receive)
        patch(Router, "receive_frame", wrap_node_receive)
        if "receive_frame" in Firewall.__dict__:
            patch(Firewall, "receive_frame", wrap_node_receive)

    def remove_wrappers(self):
        for owner, attr, orig in reversed(getattr(self, "_undo", [])):
            setattr(owner, attr, orig)
        self._undo = []

    def build(self):
        import sys

        self.install_wrappers()
        sys.setrecursionlimit(max(sys.getrecursionlimit(), 1000 + 300 * 3))
        super().build()

    def finish(self):
        self.remove_wrappers()

    def raise_pending(self):
        self.trace.clear()
        if self.pending is not None:
            v, self.pending = self.pending, None
            raise v

    # -- bench ---------------------------------------------------------------------------------------------------------
    def after_build(self):
        self.topo = Topo(self.network)
        self.hosts = sorted(n for n in self.inv["hosts"])
        self.ip = {n: h["ip"] for n, h in self.inv["hosts"].items()}
        self.routers = sorted(list(self.inv["routers"]) + list(self.inv["firewalls"]))
        self.calls.update({"ping": self.call_ping, "stray": self.call_stray, "add_route": self.call_add_route, "sweep": self.call_sweep, "connect": self.call_connect, "toggle": self.call_toggle})
        self.raise_pending()

    def guarded(self, what: str, fn):
        try:
            return fn()
        except Violation:
            raise
        except Exception as e:  # noqa: BLE001
            info = exc_summary(e)
            if info["type"] == "RecursionError":
                self.remove_wrappers()
                raise Violation("C08", "forwarding-does-not-end", f"{what} ended in RecursionError: {info['where']}", sig="forwarding-does-not-end:" + info["where"], detail={"exc": info})
            raise Violation("C01", "call-raises", f"{what} raised {info['type']}: {info['text']}", sig=f"call-raises:{info['type']}:{info['where']}", detail={"exc": info})

    def icmp_pkt(self, src_ip: str, dst_ip: str) -> Dict:
        return {"protocol": "icmp", "src_ip": int(ipaddress.IPv4Address(src_ip)), "dst_ip": int(ipaddress.IPv4Address(dst_ip)), "src_port": None, "dst_port": None}

    def call_ping(self, src: str, dst: str, pings: int = 1):
        topo = self.topo
        s, d = self.node(src), self.node(dst)
        fwd, why_f = topo.walk(src, self.ip[dst], self.icmp_pkt(self.ip[src], self.ip[dst]))
        back, why_b = topo.walk(dst, self.ip[src], self.icmp_pkt(self.ip[dst], self.ip[src])) if fwd is not None else (None, "")
        icmp_ok = all(n.software_manager.software.get("icmp") is not None and n.software_manager.software["icmp"].operating_state.name == "RUNNING" for n in (s, d))
        expect = fwd is not None and back is not None and icmp_ok and s.operating_state.name == "ON" and d.operating_state.name == "ON"
        if self.inv.get("l2_loop"):
            # switches joined by two links: address tables flap while flooded frames circulate, delivery is not promised;
            # termination, TTL and addressee oracles still apply
            expect = False
            self.probe("c08_ping_in_layer2_loop")
        self.trace.clear()
        got = self.guarded(f"ping {src} -> {dst}", lambda: s.ping(self.ip[dst], pings=pings))
        # which devices did the echo request visit?
        reqs = [rec for rec in self.trace.values() if rec["frame"].icmp is not None and str(rec["frame"].ip.src_ip_address) == self.ip[src] and str(rec["frame"].ip.dst_ip_address) == self.ip[dst] and rec["frame"].icmp.icmp_type.name == "ECHO_REQUEST"]
        seen = max(([h[0] for h in rec["hops"]] for rec in reqs), key=len, default=[])
        pend = self.pending
        self.pending = None
        self.trace.clear()
        if pend is not None:
            raise pend
        if expect:
            self.probe("c08_ping_expected_to_succeed")
            if len(fwd) > 1:
                self.probe("c08_ping_across_router_expected")
            if not got:
                raise Violation("C08", "permitted-exchange-fails", f"ping {src} ({self.ip[src]}) -> {dst} ({self.ip[dst]}) failed although the reference walk finds a permitted path {fwd} and back {back} between powered-on hosts (echo request was seen at {seen})", sig=f"permitted-exchange-fails:ping:{'direct' if len(fwd) == 1 else 'routed'}", detail={"forward": fwd, "back": back, "seen": seen})
            if seen != fwd:
                raise Violation("C08", "path-differs-from-reference", f"ping {src} -> {dst}: echo request visited {seen}, reference path (default gateway at hosts, best route at routers) is {fwd}", sig="path-differs-from-reference", detail={"forward": fwd, "seen": seen})
        else:
            self.probe("c08_ping_not_expected_to_succeed")
            if got and fwd is not None and back is not None:
                pass
            if seen and seen[-1] == dst and fwd is None and "denies" not in why_f and "not on" not in why_f:
                # delivered although the reference finds no path: only reported when the reason is a routing one
                if "no route" in why_f or "no default gateway" in why_f or "forwarding loop" in why_f:
                    raise Violation("C08", "delivered-without-a-route", f"ping {src} -> {dst}: echo request reached {dst} via {seen} although the reference says: {why_f}", sig="delivered-without-a-route", detail={"seen": seen, "why": why_f})

    def call_stray(self, src: str, ip: str):
        """A packet to an address nobody owns (may loop between routers until its TTL is exhausted)."""
        self.trace.clear()
        self.guarded(f"ping {src} -> unowned {ip}", lambda: self.node(src).ping(ip, pings=1))
        self.probe("c08_stray_packet")
        longest = max((len(rec["hops"]) for rec in self.trace.values()), default=0)
        if longest > 3:
            self.probe("c08_stray_packet_looped")
        self.raise_pending()

    def call_add_route(self, router: str, address: str, mask: str, next_hop: str, metric: float):
        self.node(router).route_table.add_route(address=address, subnet_mask=mask, next_hop_ip_address=next_hop, metric=metric)
        self.probe("c08_route_added")

    def call_sweep(self, router: str, dst: str, nh_good: str, nh_bad: str):
        """All ordered triples of a covering route family for dst on a scratch table (every call is re-decided by the
        find_best_route wrapper)."""
        from primaite.simulator.network.hardware.nodes.network.router import RouteTable

        d = ipaddress.IPv4Address(dst)
        fam = []
        for plen in (8, 16, 24, 28):
            net = ipaddress.IPv4Network(f"{d}/{plen}", strict=False)
            fam.append((str(net.network_address), str(net.netmask)))
        other = ipaddress.IPv4Network(f"{ipaddress.IPv4Address(int(d) ^ (1 << 9))}/24", strict=False)
        fam.append((str(other.network_address), str(other.netmask)))
        entries = [(a, m, nh, metric) for (a, m) in fam[:4] for nh, metric in ((nh_good, 0), (nh_bad, 1), (nh_bad, 5))][:9] + [(fam[4][0], fam[4][1], nh_bad, 0)]
        r = self.ops_rng if not self.replaying else None
        sys_log = self.node(router).sys_log
        count = 0
        for triple in itertools.permutations(range(len(entries)), 3):
            rt = RouteTable(sys_log=sys_log)
            for i in triple:
                a, m, nh, metric = entries[i]
                rt.add_route(address=a, subnet_mask=m, next_hop_ip_address=nh, metric=metric)
            rt.find_best_route(dst)
            rt.find_best_route(str(other.network_address + 5))
            count += 1
        self.probe("c08_route_tables_swept", count)
        self.raise_pending()

    def call_connect(self, src: str, dst: str):
        s, d = self.node(src), self.node(dst)
        app = s.software_manager.software.get("database-client")
        svc = d.software_manager.software.get("database-service")
        if app is None or svc is None:
            return
        # client-type applications (database client, bots) and the service share one port and a node delivers a port's
        # traffic to one software item: on a host that has both, only one of them is reachable (not a routing matter)
        if d.software_manager.port_protocol_mapping.get((svc.port, svc.protocol)) is not svc or s.software_manager.port_protocol_mapping.get((app.port, app.protocol)) is not app:
            return
        pkt = {"protocol": "tcp", "src_ip": int(ipaddress.IPv4Address(self.ip[src])), "dst_ip": int(ipaddress.IPv4Address(self.ip[dst])), "src_port": 5432, "dst_port": 5432}
        fwd, _ = self.topo.walk(src, self.ip[dst], pkt)
        back, _ = self.topo.walk(dst, self.ip[src], {**pkt, "src_ip": pkt["dst_ip"], "dst_ip": pkt["src_ip"]}) if fwd is not None else (None, "")
        ready = app.operating_state.name == "RUNNING" and svc.operating_state.name == "RUNNING" and svc.health_state_actual.name == "GOOD" and str(app.server_ip_address) == self.ip[dst]
        pw_ok = (app.server_password or None) == (svc.password or None)
        room = len(svc.connections) < svc.max_sessions
        self.trace.clear()
        conn = self.guarded(f"database connect {src} -> {dst}", lambda: app.get_new_connection())
        self.raise_pending()
        if fwd is not None and back is not None and ready and pw_ok and room and not self.inv.get("l2_loop"):
            self.probe("c08_service_exchange_expected")
            if conn is None:
                raise Violation("C08", "permitted-exchange-fails", f"database connection {src} -> {dst} failed although the reference walk finds a permitted path {fwd} / {back}, both ends are running, the password matches and there is room", sig=f"permitted-exchange-fails:database:{'direct' if len(fwd) == 1 else 'routed'}", detail={"forward": fwd, "back": back})

    def call_toggle(self, node: str, what: str, port: Optional[int] = None):
        n = self.node(node)
        if what == "port_off":
            n.network_interface[port].disable()
        elif what == "port_on":
            n.network_interface[port].enable()
        self.fault("F2_" + what)

    def _as_c08(self, v: Violation, what: str):
        if v.prop != "C08" and "RecursionError" in v.sig:
            self.remove_wrappers()
            cyc = (v.detail.get("exc") or {}).get("where", "?")
            raise Violation("C08", "forwarding-does-not-end", f"{what} ended in RecursionError: {cyc}", sig="forwarding-does-not-end:" + str(cyc), detail=v.detail)
        raise v

    def do_req(self, req: List, label: str = "req"):
        try:
            resp = super().do_req(req, label)
        except Violation as v:
            self._as_c08(v, f"request {req}")
        self.raise_pending()
        return resp

    def do_tick(self):
        try:
            super().do_tick()
        except Violation as v:
            self._as_c08(v, "a tick")

    def on_tick(self):
        self.raise_pending()

    def workload(self):
        r = self.ops_rng
        hosts = self.hosts
        n_ops = int(self.args.get("n_ops", 70))
        nets = sorted({self.ip[h].rsplit(".", 1)[0] for h in hosts})
        transit = ["10.0.0.1", "10.0.0.2", "10.0.0.3"]
        for k in range(n_ops):
            x = r.random()
            if x < 0.42 and len(hosts) >= 2:
                a, b = r.sample(hosts, 2)
                self.emit(["call", "ping", {"src": a, "dst": b, "pings": r.choice([1, 1, 2, 4])}])
            elif x < 0.50 and len(hosts) >= 2:
                a, b = r.sample(hosts, 2)
                self.emit(["call", "connect", {"src": a, "dst": b}])
            elif x < 0.60:
                a = r.choice(hosts)
                ip = r.choice([f"{r.choice(nets)}.{r.choice([13, 14, 200])}", "172.31.0.9", "192.168.99.7", f"10.0.0.{r.choice([3, 9])}"])
                self.emit(["call", "stray", {"src": a, "ip": ip}])
            elif x < 0.72 and self.inv["routers"]:
                rt = r.choice(sorted(self.inv["routers"]))
                dst = self.ip[r.choice(hosts)]
                plen = r.choice([8, 16, 24, 28, 30, 32])
                net = ipaddress.IPv4Network(f"{dst}/{plen}", strict=False)
                self.emit(["call", "add_route", {"router": rt, "address": str(net.network_address), "mask": str(net.netmask), "next_hop": r.choice(transit), "metric": r.choice([0, 1, 5])}])
            elif x < 0.75 and self.inv["routers"]:
                rt = r.choice(sorted(self.inv["routers"]))
                self.emit(["call", "sweep", {"router": rt, "dst": self.ip[r.choice(hosts)], "nh_good": "10.0.0.2", "nh_bad": "10.0.0.3"}])
            elif x < 0.83:
                n = r.choice(sorted(self.topo.nodes))
                self.emit(["req", ["network", "node", n, r.choice(["shutdown", "startup", "startup", "reset"])], "F1_power"])
            elif x < 0.90:
                n = r.choice(sorted(self.topo.nodes))
                node = self.node(n)
                port = r.choice(sorted(node.network_interface))
                if self.topo.kind(node) == "host":
                    self.emit(["req", ["network", "node", n, "network_interface", port, r.choice(["disable", "enable", "enable"])], "F2_nic"])
                else:
                    self.emit(["call", "toggle", {"node": n, "what": r.choice(["port_off", "port_on", "port_on"]), "port": port}])
            else:
                self.emit(["tick"])


def run(args: Dict) -> Dict:
    r = C08Run(args)
    try:
        return r.run()
    finally:
        r.remove_wrappers()
