"""C13 - services and applications follow their lifecycle; only running software works (E2 bench).

Reference machines (request tables of docs/source/action_masking.rst and the service/application docs):
  service      scan/stop/pause/restart/fix accepted in RUNNING, start in STOPPED, resume in PAUSED, enable in DISABLED,
               disable always (node on); stop->STOPPED start->RUNNING pause->PAUSED resume->RUNNING
               restart->RESTARTING->(restart_duration ticks)->RUNNING disable->DISABLED enable->STOPPED
  application  scan/close/fix accepted in RUNNING; close->CLOSED; install->INSTALLING->(install_duration)->RUNNING
  node power   reaching OFF stops RUNNING/PAUSED services and closes RUNNING applications; returning to ON starts
               STOPPED services and runs CLOSED applications
Oracles after every op: acceptance and resulting state conform; no state change without a cause; timed transitions take
d or d+1 ticks (consistently); software that is not RUNNING has no open port and a payload addressed to it changes
nothing on its node and makes the node send nothing; the registries (software_manager.software, node.services /
node.applications, request routes, describe_state, port map) name the same software, each once."""
from __future__ import annotations

from typing import Any, Dict, List, Optional

from dst.core import Violation, digest, jsonable
from dst.driver_net import E2Run

SVC_ACCEPT = {"scan": {"RUNNING"}, "stop": {"RUNNING"}, "start": {"STOPPED"}, "pause": {"RUNNING"}, "resume": {"PAUSED"}, "restart": {"RUNNING"}, "disable": None, "enable": {"DISABLED"}, "fix": {"RUNNING"}}
SVC_RESULT = {"stop": "STOPPED", "start": "RUNNING", "pause": "PAUSED", "resume": "RUNNING", "restart": "RESTARTING", "disable": "DISABLED", "enable": "STOPPED"}
APP_ACCEPT = {"scan": {"RUNNING"}, "close": {"RUNNING"}, "fix": {"RUNNING"}}
INTERNAL = {"arp", "host-arp", "icmp", "user-manager", "user-session-manager", "router-arp", "router-icmp"}


class C13Run(E2Run):
    prop = "C13"

    def profile(self) -> Dict:
        return {"topologies": ["lan", "routed"], "max_hosts_per_subnet": 2, "tight_links": 0.0, "random_acl_rules": (0, 0), "permit_all_rule": 1.0, "use_defaults_block": 0.7, "avoid": ["listen_on_ports"]}

    def after_build(self):
        from primaite.simulator.system.core.software_manager import SoftwareManager

        self.hosts = [n for n in self.network.nodes.values() if n.__class__.__name__ in ("Computer", "Server", "Printer")]
        self.model: Dict[str, Dict[str, Dict]] = {}
        for n in self.hosts:
            self.model[n.config.hostname] = {}
            for name, sw in n.software_manager.software.items():
                self.model[n.config.hostname][name] = {"state": sw.operating_state.name, "since": 0, "obj": id(sw)}
        self.offsets: Dict[str, int] = {}
        self.pending: Optional[Violation] = None
        self.frames_sent: Dict[str, int] = {}
        run = self
        orig = SoftwareManager.receive_payload_from_session_manager

        def recv(sm, payload, port, protocol, session_id, from_network_interface, frame):
            node = sm.node
            main = sm.port_protocol_mapping.get((port, protocol))
            watch = main is not None and main.operating_state.name != "RUNNING" and payload.__class__.__name__ != "PortScanPayload"
            if watch:
                before = run.quiet_digest(node)
                sent_before = run.frames_sent.get(node.config.hostname, 0)
            res = orig(sm, payload=payload, port=port, protocol=protocol, session_id=session_id, from_network_interface=from_network_interface, frame=frame)
            if watch:
                run.probe("c13_payload_to_non_running_software")
                changed = run.quiet_digest(node) != before
                sent = run.frames_sent.get(node.config.hostname, 0) - sent_before
                if changed or sent:
                    run.pending = run.pending or Violation(
                        "C13",
                        "non-running-software-handled-payload",
                        f"{node.config.hostname}: {main.name} is {main.operating_state.name} but a {type(payload).__name__} payload on port {port}/{protocol} {'changed the node state' if changed else ''}{' and ' if changed and sent else ''}{f'made the node send {sent} frame(s)' if sent else ''}",
                        sig=f"non-running-software-handled-payload:{main.name}",
                        detail={"software": main.name, "state": main.operating_state.name, "payload": type(payload).__name__},
                    )
            return res

        SoftwareManager.receive_payload_from_session_manager = recv
        self._unpatch = [(SoftwareManager, "receive_payload_from_session_manager", orig)]
        seen = set()
        for n in self.network.nodes.values():
            for nic in n.network_interfaces.values():
                cls = type(nic)
                if cls in seen:
                    continue
                seen.add(cls)
                o = cls.send_frame

                def mk(o):
                    def send_frame(nic, frame):
                        ok = o(nic, frame)
                        if ok and nic._connected_node is not None:
                            hn = nic._connected_node.config.hostname
                            run.frames_sent[hn] = run.frames_sent.get(hn, 0) + 1
                        return ok

                    return send_frame

                cls.send_frame = mk(o)
                self._unpatch.append((cls, "send_frame", o))
        self.calls.update({"ping": self.call_ping, "client": self.call_client})
        self.check_registries("after scenario load")

    def finish(self):
        for cls, attr, orig in getattr(self, "_unpatch", []):
            setattr(cls, attr, orig)

    def quiet_digest(self, node) -> str:
        st = jsonable(node.describe_state())
        for nic in st.get("NICs", {}).values():
            nic.pop("traffic", None)
            nic.pop("nmne", None)
        return digest(st)

    # -- registries ----------------------------------------------------------------------------------------------------
    def check_registries(self, when: str):
        for n in self.hosts:
            hn = n.config.hostname
            sm = n.software_manager

            def bad(clause, msg):
                raise Violation("C13", clause, f"{when}: {hn}: {msg}", sig=clause, detail={"software": sorted(sm.software)})

            svc_names = [s.name for s in n.services.values()]
            app_names = [a.name for a in n.applications.values()]
            if len(svc_names) != len(set(svc_names)) or len(app_names) != len(set(app_names)):
                dup = sorted({x for x in svc_names + app_names if (svc_names + app_names).count(x) > 1})
                bad("software-listed-twice", f"node lists {dup} more than once (services {sorted(svc_names)}, applications {sorted(app_names)})")
            if sorted(svc_names + app_names) != sorted(sm.software):
                bad("software-list-differs-from-software-manager", f"node.services+applications {sorted(svc_names + app_names)} != software_manager.software {sorted(sm.software)}")
            for name, sw in sm.software.items():
                if sw.name != name:
                    bad("software-registered-under-wrong-name", f"{sw.name} registered as {name}")
            routes = set(n._service_request_manager.request_types) | set(n._application_request_manager.request_types)
            if routes != set(sm.software):
                bad("request-routes-differ-from-software-manager", f"routable names {sorted(routes)} != installed {sorted(sm.software)}")
            st = n.describe_state()
            if sorted(list(st["services"]) + list(st["applications"])) != sorted(sm.software):
                bad("reported-state-differs-from-software-manager", f"describe_state lists {sorted(list(st['services']) + list(st['applications']))}, installed {sorted(sm.software)}")
            open_ports = sm.get_open_ports()
            for name, sw in sm.software.items():
                running = sw.operating_state.name == "RUNNING"
                mapped = sm.port_protocol_mapping.get((sw.port, sw.protocol))
                if not running and mapped is sw and sw.port in open_ports and sw.port not in (0, -1):
                    others = [o.name for o in sm.software.values() if o is not sw and o.operating_state.name == "RUNNING" and (o.port == sw.port or sw.port in (o.listen_on_ports or set()))]
                    if not others:
                        bad("port-open-for-non-running-software", f"port {sw.port} of {name} ({sw.operating_state.name}) is reported open")
            for (port, proto), sw in sm.port_protocol_mapping.items():
                if sw.name not in sm.software or sm.software[sw.name] is not sw:
                    bad("port-map-names-uninstalled-software", f"port map entry {(port, proto)} -> {sw.name} which is not the installed instance")

    # -- model -------------------------------------------------------------------------------------------------------
    def observe(self, when: str, cause: str, target=None, verb=None, accepted=None):
        if self.pending is not None:
            v, self.pending = self.pending, None
            raise v
        for n in self.hosts:
            hn = n.config.hostname
            m = self.model[hn]
            sm = n.software_manager
            if n.operating_state.name in ("OFF", "BOOTING"):
                # reaching OFF (also in passing, during a reset) stops services and closes applications
                up = sorted(name for name, sw in sm.software.items() if sw.operating_state.name in ("RUNNING", "PAUSED"))
                if up:
                    raise Violation("C13", "software-up-while-node-down", f"{when}: {hn} is {n.operating_state.name} but {up} are still RUNNING / PAUSED", sig="software-up-while-node-down", detail={"software": up})
            for name in list(m):
                if name not in sm.software:
                    if not (cause == "request" and target == (hn, name) and verb in ("uninstall", "install")):
                        raise Violation("C13", "software-vanished", f"{when}: {hn}/{name} is no longer installed although nothing uninstalled it", sig="software-vanished", detail={})
                    del m[name]
            for name, sw in sm.software.items():
                cur = sw.operating_state.name
                if name not in m or m[name]["obj"] != id(sw):
                    if not (cause == "request" and target is not None and target[0] == hn and verb in ("install", "other")) and name not in m:
                        raise Violation("C13", "software-appeared", f"{when}: {hn}/{name} appeared although nothing installed it", sig=f"software-appeared:{name}", detail={})
                    m[name] = {"state": cur, "since": self.ticks, "obj": id(sw)}
                    continue
                prev = m[name]["state"]
                if cur == prev:
                    if cur in ("RESTARTING", "INSTALLING") and n.operating_state.name == "ON":
                        d = getattr(sw, "restart_duration", 0) if cur == "RESTARTING" else getattr(sw, "install_duration", 0)
                        if self.ticks - m[name]["since"] - m[name].get("off_ticks", 0) > d + 1:
                            raise Violation("C13", "timed-transition-never-completes", f"{when}: {hn}/{name} {cur} for {self.ticks - m[name]['since']} ticks, configured {d}", sig=f"timed-transition-never-completes:{cur}", detail={})
                    if n.operating_state.name != "ON" and cur in ("RESTARTING", "INSTALLING"):
                        m[name]["off_ticks"] = m[name].get("off_ticks", 0) + (1 if cause == "tick" else 0)
                    continue
                is_svc = hasattr(sw, "restart_duration")
                ok = False
                why = ""
                if cause == "request" and target == (hn, name) and accepted:
                    if is_svc and SVC_RESULT.get(verb) == cur:
                        ok = True
                    if not is_svc and verb == "close" and cur == "CLOSED":
                        ok = True
                if cause == "request" and target == (hn, name) and not is_svc and verb == "execute" and prev == "CLOSED" and cur == "RUNNING":
                    ok = True  # executing a closed application opens it (whatever the execution itself answers)
                if ok:
                    pass
                elif cause == "tick":
                    if prev == "RESTARTING" and cur == "RUNNING":
                        ok = True
                        self.timing(hn, name, sw, "restart", sw.restart_duration, m[name], when)
                    elif prev == "INSTALLING" and cur == "RUNNING":
                        ok = True
                        self.timing(hn, name, sw, "install", sw.install_duration, m[name], when)
                    elif self.power_changed.get(hn):
                        ok = self.power_edge_ok(prev, cur, is_svc)
                elif cause == "request" and target is not None and target[0] == hn and verb in ("shutdown", "startup", "reset"):
                    ok = self.power_edge_ok(prev, cur, is_svc)
                elif cause == "request" and target is not None and target[0] == hn and target[1] != name and name == "ftp-client" and verb in ("install", "other"):
                    ok = True
                if not ok:
                    raise Violation(
                        "C13",
                        "undocumented-state-transition",
                        f"{when}: {hn}/{name} went {prev} -> {cur} (cause {cause}{', ' + str(verb) if verb else ''}{', accepted' if accepted else ''}; node {n.operating_state.name})",
                        sig=f"undocumented-state-transition:{'service' if is_svc else 'application'}:{prev}->{cur}:{cause}{':' + verb if verb and target == (hn, name) else ''}",
                        detail={"software": name, "from": prev, "to": cur, "cause": cause, "verb": verb},
                    )
                m[name].update({"state": cur, "since": self.ticks, "off_ticks": 0})
        self.power_changed = {}

    @staticmethod
    def power_edge_ok(prev, cur, is_svc) -> bool:
        # a power cycle may complete within one op (zero durations, reset): stop-then-start composes
        if is_svc:
            return prev in ("RUNNING", "PAUSED", "STOPPED") and cur in ("STOPPED", "RUNNING")
        return prev in ("RUNNING", "CLOSED") and cur in ("CLOSED", "RUNNING")

    def timing(self, hn, name, sw, kind, d, rec, when):
        spent = self.ticks - rec["since"] - rec.get("off_ticks", 0)
        off = spent - d
        self.probe(f"c13_{kind}_completed")
        if off not in (0, 1) and not (d == 0 and spent <= 1):
            raise Violation("C13", "timed-transition-duration", f"{when}: {hn}/{name} {kind} took {spent} ticks, configured {d}", sig=f"timed-transition-duration:{kind}", detail={"spent": spent, "configured": d})
        if d > 0 and self.offsets.setdefault(kind, off) != off:
            raise Violation("C13", "timed-transition-inconsistent", f"{when}: {hn}/{name} {kind} took d+{off}, earlier d+{self.offsets[kind]}", sig=f"timed-transition-inconsistent:{kind}", detail={})

    # -- ops -----------------------------------------------------------------------------------------------------------
    power_changed: Dict[str, bool] = {}

    def do_req(self, req: List, label: str = "req"):
        hn = req[2] if len(req) > 2 else None
        node = self.node(hn) if hn else None
        kind = verb = name = None
        if len(req) >= 6 and req[3] in ("service", "application"):
            kind, name, verb = req[3], req[4], req[5]
        elif len(req) == 4 and req[3] in ("shutdown", "startup", "reset"):
            verb = req[3]
        elif len(req) >= 7 and req[3] == "software_manager":
            kind, verb, name = "application", req[5], req[6]
        pre_state = None
        node_on = node is not None and node.operating_state.name == "ON"
        sw = node.software_manager.software.get(name) if (node is not None and name) else None
        if sw is not None:
            pre_state = sw.operating_state.name
        pre_power = {n.config.hostname: n.operating_state.name for n in self.hosts}
        pre_ports = {k: v.name for k, v in node.software_manager.port_protocol_mapping.items()} if (node is not None and verb in ("uninstall", "install") and kind == "application") else None
        resp = super().do_req(req, label)
        accepted = resp.status == "success"
        if pre_ports is not None:
            post = {k: v.name for k, v in node.software_manager.port_protocol_mapping.items()}
            for k, owner in pre_ports.items():
                if owner != name and post.get(k) != owner and not (verb == "install" and post.get(k) == name):
                    raise Violation("C13", "uninstall-touched-another-softwares-port", f"{hn}: {verb} {name} changed the port map entry {k} of {owner} to {post.get(k)}", sig=f"{verb}-touched-another-softwares-port", detail={"software": name, "owner": owner})
            if verb == "uninstall" and accepted:
                self.probe("c13_uninstall_accepted")
        for n in self.hosts:
            if n.operating_state.name != pre_power[n.config.hostname]:
                self.power_changed[n.config.hostname] = True
        # acceptance conformance for lifecycle verbs
        if sw is not None and kind in ("service", "application") and len(req) == 6:
            table = SVC_ACCEPT if kind == "service" else APP_ACCEPT
            if verb in table:
                allowed = node_on and (table[verb] is None or pre_state in table[verb])
                if verb == "fix" and allowed and sw.health_state_actual.name not in ("GOOD", "COMPROMISED"):
                    allowed = None  # fix is documented for compromised/good software only: either answer is accepted
                if allowed is True and not accepted:
                    raise Violation("C13", "request-refused-in-documented-source-state", f"{hn}/{name} ({pre_state}, node ON): {verb} answered {resp.status} {resp.data}", sig=f"request-refused-in-documented-source-state:{kind}:{verb}:{pre_state}", detail={"software": name})
                if allowed is False and accepted:
                    raise Violation("C13", "request-accepted-outside-documented-source-states", f"{hn}/{name} ({pre_state}, node {node.operating_state.name}): {verb} answered success", sig=f"request-accepted-outside-documented-source-states:{kind}:{verb}:{pre_state}", detail={"software": name})
                if allowed is False:
                    self.probe("c13_lifecycle_request_refused")
                elif allowed:
                    self.probe("c13_lifecycle_request_accepted")
        if sw is not None and kind == "application" and len(req) == 6 and verb == "execute" and pre_state == "INSTALLING":
            self.probe("c13_execute_while_installing")
            if accepted:
                raise Violation("C13", "request-accepted-outside-documented-source-states", f"{hn}/{name} (INSTALLING, node {node.operating_state.name}): execute answered success", sig="request-accepted-outside-documented-source-states:application:execute:INSTALLING", detail={"software": name})
        self.observe(f"after request {req[2:]}", cause="request", target=(hn, name), verb=verb if (kind or verb in ("shutdown", "startup", "reset")) else "other", accepted=accepted)
        self.check_registries(f"after request {req[2:]}")
        return resp

    def on_tick(self):
        # node power may complete in a tick
        for n in self.hosts:
            cur = n.operating_state.name
            if cur != self.power_seen.get(n.config.hostname, cur):
                self.power_changed[n.config.hostname] = True
            self.power_seen[n.config.hostname] = cur
        self.observe("after tick", cause="tick")
        self.check_registries("after tick")

    power_seen: Dict[str, str] = {}

    def call_ping(self, src: str, dst: str, dst_ip: str):
        a, b = self.node(src), self.node(dst)
        icmp = b.software_manager.software.get("icmp")
        arp = b.software_manager.software.get("arp")
        ok = a.ping(dst_ip, pings=1)
        if ok and icmp is not None and icmp.operating_state.name != "RUNNING":
            raise Violation("C13", "non-running-software-handled-payload", f"ping {src} -> {dst} succeeded although {dst}'s icmp service is {icmp.operating_state.name}", sig="non-running-software-handled-payload:icmp", detail={})
        self.observe(f"after ping {src}->{dst}", cause="other")
        return ok

    def call_client(self, host: str, app: str):
        """Client-side exercise through the public request: execute the application (web-browser / database-client)."""
        self.do_req(["network", "node", host, "application", app, "execute"], "client")

    def workload(self):
        r = self.ops_rng
        n_ops = int(self.args.get("n_ops", 90))
        self.power_seen = {n.config.hostname: n.operating_state.name for n in self.hosts}
        self.power_changed = {}
        installable = ["database-client", "web-browser", "ransomware-script", "dos-bot", "data-manipulation-bot", "c2-beacon", "c2-server"]
        for _ in range(n_ops):
            node = r.choice(self.hosts)
            hn = node.config.hostname
            base = ["network", "node", hn]
            x = r.random()
            svcs = sorted(s.name for s in node.services.values())
            apps = sorted(a.name for a in node.applications.values())
            if x < 0.22:
                self.emit(["tick"])
            elif x < 0.55 and svcs:
                name = r.choice([s for s in svcs if s not in INTERNAL] or svcs) if r.random() < 0.85 else r.choice(svcs)
                self.emit(["req", base + ["service", name, r.choice(["stop", "start", "pause", "resume", "restart", "restart", "disable", "enable", "fix", "scan"])], "F4_service"])
            elif x < 0.70 and apps:
                self.emit(["req", base + ["application", r.choice(apps), r.choice(["close", "execute", "fix", "scan"])], "F4_app"])
            elif x < 0.80:
                appn = r.choice(installable + apps)
                verb_i = r.choice(["install", "uninstall", "install"])
                self.emit(["req", base + ["software_manager", "application", verb_i, appn], "F4_install"])
                if verb_i == "install" and r.random() < 0.5:
                    # use the application while it is still installing (pointed at the database server first, so that
                    # executing it would do something)
                    roles = self.inv.get("roles", {})
                    db_ip = self.inv["hosts"].get(roles.get("db"), {}).get("ip")
                    pw = roles.get("db_password")
                    conf = {"database-client": ("configure-database-client", {"server_ip_address": db_ip, "server_password": pw}), "ransomware-script": ("configure-ransomware-script", {"server_ip_address": db_ip, "server_password": pw, "payload": "ENCRYPT"}), "dos-bot": ("configure-dos-bot", {"target_ip_address": db_ip, "max_sessions": 3, "dos_intensity": 1.0, "port_scan_p_of_success": 1.0})}.get(appn)
                    if conf and db_ip:
                        from primaite.game.agent.actions.abstract import AbstractAction

                        cls = AbstractAction._registry[conf[0]]
                        try:
                            self.emit(["req", jsonable(cls.form_request(cls.ConfigSchema(node_name=hn, **{k: v for k, v in conf[1].items() if v is not None}))), "F4_app"])
                        except Exception:
                            pass
                    for _ in range(r.randint(1, 2)):
                        self.emit(["req", base + ["application", appn, r.choice(["execute", "execute", "scan", "close", "fix"])], "F4_app"])
                        if r.random() < 0.4:
                            self.emit(["tick"])
            elif x < 0.86:
                self.emit(["req", base + [r.choice(["shutdown", "startup", "reset"])], "F1_power"])
            elif x < 0.94 and len(self.hosts) >= 2:
                a, b = r.sample(self.hosts, 2)
                self.emit(["call", "ping", {"src": a.config.hostname, "dst": b.config.hostname, "dst_ip": str(b.network_interface[1].ip_address)}])
            else:
                cl = [a for a in apps if a in ("web-browser", "database-client")]
                if cl:
                    self.emit(["call", "client", {"host": hn, "app": r.choice(cl)}])


def run(args: Dict) -> Dict:
    return C13Run(args).run()
