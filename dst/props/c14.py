"""C14 - visible health changes only by scanning; fixes and scans take their set time (E2 bench, shadow records).

Shadow record per software item, file and folder: (actual, visible) after every op and tick, plus the harness' own list
of pending timed operations (fix, folder scan, folder restore, node scan). Oracles:
  visible   changes only at an op that completes a scan covering the item - a direct scan request, or the tick in which
            a pending folder scan / node scan falls due - and then equals the item's actual health at that instant
  actual    of software and files changes only in an op that explains it: compromise / corrupt / fix / repair / restore
            requests, power events that start software, and the tick in which a pending fix or restore falls due
  timing    fix -> GOOD, folder scan, folder restore and node scan fall due d or d+1 ticks after the request (the same
            offset per kind within a run; immediately or at the next tick for d = 0) - and they do fall due
"""
from __future__ import annotations

from typing import Any, Dict, List, Optional, Tuple

from dst.core import Violation, jsonable
from dst.driver_net import E2Run


class C14Run(E2Run):
    prop = "C14"

    def profile(self) -> Dict:
        return {"topologies": ["lan"], "max_hosts_per_subnet": 2, "tight_links": 0.0, "initial_files": 1.0, "use_defaults_block": 1.0, "default_durations": [0, 1, 2, 3, 5], "durations": [0, 1, 2, 3, 5], "avoid": ["listen_on_ports"]}

    def tweak_scenario(self):
        # node scan durations small enough to complete within a run
        r = self.ops_rng
        for n in self.scenario["simulation"]["network"]["nodes"]:
            if n["type"] in ("computer", "server", "printer"):
                n["node_scan_duration"] = r.choice([0, 1, 2, 3])
        d = self.scenario.setdefault("defaults", {})
        d.pop("node_scan_duration", None)

    # -- shadow ----------------------------------------------------------------------------------------------------
    def items(self, node) -> Dict[Tuple, Tuple[str, str]]:
        out = {}
        for name, sw in node.software_manager.software.items():
            out[("sw", name, id(sw))] = (sw.health_state_actual.name, sw.health_state_visible.name)
        for folder in node.file_system.folders.values():
            out[("folder", folder.name, id(folder))] = (folder.health_status.name, folder.visible_health_status.name)
            for f in folder.files.values():
                out[("file", folder.name, f.name, id(f))] = (f.health_status.name, f.visible_health_status.name)
        return out

    def after_build(self):
        self.hosts = [n for n in self.network.nodes.values() if n.__class__.__name__ in ("Computer", "Server", "Printer")]
        # the durations the timing clauses are judged by are the CONFIGURED ones: a folder must carry the scenario's
        # folder defaults (folders state no durations of their own)
        d = self.scenario.get("defaults") or {}
        for n in self.hosts:
            for folder in n.file_system.folders.values():
                for dk, attr in (("folder_scan_duration", "scan_duration"), ("folder_restore_duration", "restore_duration")):
                    if dk in d and getattr(folder, attr) != d[dk]:
                        raise Violation("C14", "configured-duration-not-used", f"{n.config.hostname}/{folder.name}: configured {dk} {d[dk]}, the folder works with {getattr(folder, attr)}", sig=f"configured-duration-not-used:{dk}", detail={})
        self.shadow = {n.config.hostname: self.items(n) for n in self.hosts}
        self.pending: List[Dict] = []  # timed operations: kind, host, target, requested_at, duration
        self.offsets: Dict[str, int] = {}

    def due(self, p: Dict) -> bool:
        """May this pending operation complete in the tick that has just been applied?"""
        age = self.ticks - p["at"] - p.get("off_ticks", 0)
        d = p["d"]
        return age in (d, d + 1) or (d == 0 and age in (0, 1))

    def expire(self, when: str):
        for p in list(self.pending):
            age = self.ticks - p["at"] - p.get("off_ticks", 0)
            node = self.node(p["host"])
            if node.operating_state.name != "ON":
                p["off_ticks"] = p.get("off_ticks", 0) + 1
                if p["kind"] in ("node_scan",):
                    pass
                continue
            if age > p["d"] + 1:
                if not p.get("done") and not p.get("ambiguous"):
                    still = True
                    if p["kind"] == "folder_restore":
                        fo = node.file_system.get_folder(p["target"])
                        still = fo is not None and fo.health_status.name == "RESTORING"
                    if p["kind"] == "fix":
                        sw = node.software_manager.software.get(p["target"])
                        still = sw is not None and sw.health_state_actual.name == "FIXING"
                    unscanned = None
                    if p.get("watch"):
                        cur = {"|".join(map(str, k)): v for k, (a, v) in self.items(node).items()}
                        unscanned = [k for k, seen in p["watch"].items() if k in cur and cur[k] not in seen]
                        still = bool(unscanned)
                    if still and (p["kind"] in ("fix", "folder_restore") or p.get("watch")):
                        raise Violation(
                            "C14",
                            "timed-operation-never-completes",
                            f"{when}: {p['host']}: {p['kind']} of {p['target']} requested at tick {p['at']} with duration {p['d']} has not completed after {age} ticks",
                            sig=f"timed-operation-never-completes:{p['kind']}:d={'0' if p['d'] == 0 else 'n'}",
                            detail={"pending": jsonable(p)},
                        )
                self.pending.remove(p)

    def explain(self, host: str, key: Tuple, old: Tuple[str, str], new: Tuple[str, str], cause: str, req: Optional[List], ok: bool, when: str):
        node = self.node(host)
        kind = key[0]
        name = key[1]
        a0, v0 = old
        a1, v1 = new

        def bad(clause, msg, sig_extra=""):
            raise Violation("C14", clause, f"{when}: {host}: {kind} {'/'.join(map(str, key[1:-1]))}: {msg}", sig=f"{clause}:{kind}{sig_extra}", detail={"old": old, "new": new, "cause": cause, "request": jsonable(req), "pending": jsonable(self.pending)})

        verb = req[-1] if req else None
        if req and len(req) >= 8 and req[3] == "file_system" and req[4] in ("restore", "delete") and req[5] == "file":
            verb = req[4]  # [.., file_system, restore|delete, file, <folder>, <file>]
        direct = False
        if req and ok:
            if kind == "sw" and len(req) >= 6 and req[4] == name:
                direct = True
            if kind == "file" and "file" in req and key[2] in req and key[1] in req:
                direct = True
            if kind == "folder" and len(req) >= 7 and req[3] == "file_system" and req[4] == "folder" and req[5] == name and "file" not in req[6:]:
                direct = True
        # ---- visible ----
        if v1 != v0:
            explained = False
            if cause == "request" and direct and verb == "scan":
                explained = True
            if cause == "request" and kind in ("file", "folder") and req and ok and req[3] == "os" and False:
                explained = True
            if cause == "request" and ok and req and kind in ("file", "folder"):
                # a zero-duration folder scan completes within the request that starts it
                for p in self.pending:
                    if p["kind"] == "folder_scan" and p["host"] == host and p["target"] == key[1] and p["d"] == 0 and p["at"] == self.ticks:
                        explained = True
                        p["done"] = True
            if cause == "tick":
                cands = [p for p in self.pending if ((p["kind"] == "node_scan" and p["host"] == host) or (p["kind"] == "folder_scan" and p["host"] == host and kind in ("file", "folder") and p["target"] == key[1])) and self.due(p)]
                for p in cands:
                    explained = True
                    p["done"] = True
                if len(cands) == 1 and not any(q is not cands[0] and q["host"] == host and q["kind"] in ("node_scan", "folder_scan") for q in self.pending):
                    self.note_offset(cands[0], when)  # unambiguous attribution only
            if cause == "request" and kind == "file" and req and ok and verb == "restore" and False:
                explained = True
            # the database service copies the visible status over when it restores its file: a restore event
            if kind == "file" and key[2] == "database.db" and (cause == "tick" or (req and "database-service" in req)):
                explained = explained or any(p["kind"] == "fix" and p["target"] == "database-service" and p["host"] == host for p in self.pending)
            if not explained:
                bad("visible-health-changed-without-scan", f"visible health went {v0} -> {v1} (actual {a1}) at an op that completes no scan covering it ({cause}{' ' + str(req[3:]) if req else ''})")
            # the scan may run before other things in the same tick change the actual health (a fix completing)
            if v1 not in (a1, a0) and not (kind == "folder"):
                bad("visible-health-not-actual-after-scan", f"visible health became {v1} while actual health was {a0} before and is {a1} after the op")
            self.probe("c14_visible_updated_by_scan")
        # ---- folder restore completion is visible through the folder's own health (RESTORING -> ...) ----
        # (a folder's own health leaves RESTORING for several reasons - a scan falling due or a corrupt request rewrite
        # it - while the restore countdown keeps running: it says nothing about the pending restore, whose timing is
        # judged on the files it repairs)
        # ---- actual ----
        if a1 != a0 and kind in ("sw", "file"):
            explained = False
            if cause == "request" and ok:
                if direct and verb in ("compromise", "fix", "corrupt", "repair", "restore"):
                    explained = True
                if kind == "file" and req and req[3] == "file_system" and req[4] == "folder" and req[5] == key[1] and verb in ("corrupt", "repair", "restore"):
                    explained = True
                if kind == "sw" and req and (verb in ("startup", "reset", "start", "execute", "install", "enable", "restart") or (len(req) > 5 and req[3] == "software_manager")):
                    explained = a0 == "UNUSED" or a1 in ("GOOD",) and a0 in ("UNUSED",)
            if cause == "request" and kind == "sw" and req and req[-1] in ("startup", "reset") and a0 == "UNUSED":
                explained = True
            if cause == "tick":
                for p in self.pending:
                    if p["host"] != host:
                        continue
                    if p["kind"] == "fix" and kind == "sw" and p["target"] == name and a0 == "FIXING" and a1 == "GOOD" and self.due(p):
                        explained = True
                        p["done"] = True
                        self.note_offset(p, when)
                    if p["kind"] == "folder_restore" and kind == "file" and p["target"] == key[1] and self.due(p):
                        explained = True
                        p["done"] = True
                        self.note_offset(p, when)
                    if p["kind"] == "fix" and p["target"] == "database-service" and kind == "file" and key[2] == "database.db" and self.due(p):
                        explained = True
                if kind == "sw" and a0 == "UNUSED" and a1 == "GOOD":
                    explained = True  # software started by a node that finished booting
                if kind == "sw" and a0 == "FIXING" and a1 == "GOOD" and not explained:
                    bad("fix-completed-at-wrong-time", f"fix completed at tick {self.ticks}; pending fixes: {[(p['at'], p['d']) for p in self.pending if p['kind'] == 'fix' and p['target'] == name]}", sig_extra="")
            if not explained:
                bad("actual-health-changed-without-event", f"actual health went {a0} -> {a1} without an explaining event ({cause}{' ' + str(req[3:]) if req else ''})")
            self.probe("c14_actual_changed_by_event")

    def note_offset(self, p: Dict, when: str):
        if p["d"] <= 0:
            return
        off = self.ticks - p["at"] - p.get("off_ticks", 0) - p["d"]
        k = p["kind"]
        self.probe(f"c14_{k}_completed")
        if self.offsets.setdefault(k, off) != off:
            raise Violation("C14", "timing-offset-inconsistent", f"{when}: {k} completed d+{off} ticks after the request, earlier d+{self.offsets[k]}", sig=f"timing-offset-inconsistent:{k}", detail={})

    def compare(self, cause: str, req: Optional[List], ok: bool, when: str):
        for n in self.hosts:
            hn = n.config.hostname
            new = self.items(n)
            old = self.shadow[hn]
            for key, val in new.items():
                if key in old and old[key] != val:
                    self.explain(hn, key, old[key], val, cause, req if req and len(req) > 2 and req[2] == hn else None, ok, when)
            self.shadow[hn] = new
            for p in self.pending:
                if p.get("watch") and p["host"] == hn:
                    live = {"|".join(map(str, k)) for k in new}
                    for ks in [ks for ks in p["watch"] if ks not in live]:
                        del p["watch"][ks]  # deleted / uninstalled meanwhile: no longer covered by the scan
                    for k, (a, v) in new.items():
                        ks = "|".join(map(str, k))
                        if ks in p["watch"] and a not in p["watch"][ks]:
                            p["watch"][ks].append(a)
        if cause == "tick":
            self.expire(when)

    # -- ops ---------------------------------------------------------------------------------------------------------
    def do_req(self, req: List, label: str = "req"):
        hn = req[2]
        node = self.node(hn)
        resp = super().do_req(req, label)
        ok = resp.status == "success"
        if ok and node is not None:
            verb = req[-1]
            if verb == "fix" and req[3] in ("service", "application"):
                sw = node.software_manager.software.get(req[4])
                if sw is not None and sw.health_state_actual.name == "FIXING":
                    self.pending = [p for p in self.pending if not (p["kind"] == "fix" and p["host"] == hn and p["target"] == req[4])]
                    self.pending.append({"kind": "fix", "host": hn, "target": req[4], "at": self.ticks, "d": sw.config.fixing_duration})
                    self.probe("c14_fix_started")
            elif req[3:5] == ["os", "scan"]:
                self.pending = [p for p in self.pending if not (p["kind"] == "node_scan" and p["host"] == hn)]
                self.pending.append({"kind": "node_scan", "host": hn, "target": "*", "at": self.ticks, "d": node.config.node_scan_duration, "watch": self.watch(node)})
                self.probe("c14_node_scan_started")
            elif req[3] == "file_system" and req[4] == "folder" and len(req) == 7 and verb in ("scan", "restore"):
                folder = node.file_system.get_folder(req[5])
                if folder is not None:
                    kind = "folder_scan" if verb == "scan" else "folder_restore"
                    # a request while the same operation is still counting down is ignored by the folder; once the
                    # earlier one may have fallen due (age >= d) the new request may start a new countdown
                    running = [p for p in self.pending if p["kind"] == kind and p["host"] == hn and p["target"] == req[5] and not p.get("done") and (self.ticks - p["at"] - p.get("off_ticks", 0)) < p["d"]]
                    already = bool(running)
                    for p in running:
                        p["ambiguous"] = True  # asked again while counting down: no claim about when it must be over
                    if not already:
                        # an earlier one that may already have fallen due is superseded by this request
                        self.pending = [p for p in self.pending if not (p["kind"] == kind and p["host"] == hn and p["target"] == req[5])]
                        self.pending.append({"kind": kind, "host": hn, "target": req[5], "at": self.ticks, "d": folder.scan_duration if verb == "scan" else folder.restore_duration, "watch": self.watch(node, req[5]) if verb == "scan" else None})
                        self.probe(f"c14_{kind}_started")
        self.compare("request", req, ok, f"after request {req[2:]}")
        return resp

    def watch(self, node, folder: Optional[str] = None) -> Dict:
        """Items covered by a scan that has just been requested -> set of actual health values seen since the request.
        When the scan is overdue, an item whose visible health is none of the values its actual health has had since
        the request has evidently not been scanned."""
        return {"|".join(map(str, k)): [a] for k, (a, v) in self.items(node).items() if k[0] in ("file", "sw") and (folder is None or (k[0] == "file" and k[1] == folder))}

    def stale(self, node, folder: Optional[str] = None) -> bool:
        """Is there an item covered by the scan whose visible health differs from its actual health right now?"""
        for key, (a, v) in self.items(node).items():
            if key[0] == "file" and (folder is None or key[1] == folder) and a != v:
                return True
        return False

    def on_tick(self):
        self.compare("tick", None, True, "after tick")

    def workload(self):
        r = self.ops_rng
        n_ops = int(self.args.get("n_ops", 100))
        for _ in range(n_ops):
            node = r.choice(self.hosts)
            hn = node.config.hostname
            base = ["network", "node", hn]
            x = r.random()
            sws = sorted(n for n in node.software_manager.software if n not in ("arp", "host-arp", "icmp", "user-manager", "user-session-manager"))
            folders = sorted(f.name for f in node.file_system.folders.values())
            if x < 0.05 and folders:
                # overlapping scans: a folder's own timed scan still counting down when a whole-node scan falls due
                fo = r.choice(folders)
                files = sorted(f.name for f in node.file_system.get_folder(fo).files.values())
                if files:
                    self.emit(["req", base + ["file_system", "folder", fo, "file", r.choice(files), r.choice(["corrupt", "corrupt", "repair"])], "health"])
                first, second = (["file_system", "folder", fo, "scan"], ["os", "scan"]) if r.random() < 0.7 else (["os", "scan"], ["file_system", "folder", fo, "scan"])
                self.emit(["req", base + first, "health"])
                for _ in range(r.choice([0, 0, 1, 2])):
                    self.emit(["tick"])
                self.emit(["req", base + second, "health"])
                for _ in range(r.choice([2, 4, 6])):
                    self.emit(["tick"])
                self.probe("c14_overlapping_scans_motif")
            elif x < 0.30:
                self.emit(["tick"])
            elif x < 0.55 and sws:
                name = r.choice(sws)
                kind = "service" if name in {s.name for s in node.services.values()} else "application"
                verbs = ["compromise", "compromise", "fix", "fix", "scan", "scan"]
                if kind == "service":
                    verbs += ["stop", "start", "disable", "enable", "pause", "resume"]  # a fix keeps running through these
                self.emit(["req", base + [kind, name, r.choice(verbs)], "health"])
            elif x < 0.62:
                self.emit(["req", base + ["os", "scan"], "health"])
            elif x < 0.80 and folders:
                fo = r.choice(folders)
                files = sorted(f.name for f in node.file_system.get_folder(fo).files.values())
                if files and r.random() < 0.6:
                    self.emit(["req", base + ["file_system", "folder", fo, "file", r.choice(files), r.choice(["corrupt", "corrupt", "scan", "repair", "restore"])], "health"])
                else:
                    self.emit(["req", base + ["file_system", "folder", fo, r.choice(["scan", "scan", "corrupt", "repair", "restore"])], "health"])
            elif x < 0.86 and folders:
                fo = r.choice(folders)
                files = sorted(f.name for f in node.file_system.get_folder(fo).files.values())
                if files:
                    self.emit(["req", base + ["file_system", r.choice(["delete", "restore"]), "file", fo, r.choice(files)], "fs"])
            elif x < 0.92:
                self.emit(["req", base + [r.choice(["shutdown", "startup", "reset"])], "F1_power"])
            else:
                self.emit(["tick"])


def run(args: Dict) -> Dict:
    return C14Run(args).run()
