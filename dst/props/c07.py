"""C07 - ACL verdict = first matching rule by position, else the implicit action (E2 bench + passive monitor).

Seeded op sequences on the routers / firewalls of generated scenarios: rules are added and removed through the Python
API, through the acl add_rule/remove_rule requests used by agent actions, through the router-acl-* / firewall-acl-*
actions (translated by the real action classes) and by scenario loading; crafted frames over a small covering domain
are put to is_permitted in between, and real traffic (pings, service requests) flows through the same lists.
Oracle after each op: the reported rule table equals the harness' own table (so an add/remove changed the addressed
position only), verdict/deciding rule/hit counters agree with the reference filter (passive monitor c07)."""
from __future__ import annotations

import ipaddress
from typing import Any, Dict, List, Optional, Tuple

from dst.core import Violation, jsonable
from dst.driver_net import E2Run
from dst.models.acl import RefACL, RefRule, ip_int

PORTS = {"HTTP": 80, "POSTGRES_SERVER": 5432, "DNS": 53, "FTP": 21, "NTP": 123, "SSH": 22, "ARP": 219}
WC = ["0.0.0.0", "0.0.0.1", "0.0.0.255", "0.0.255.255", "255.255.255.255", "0.0.0.254", "0.0.255.0"]


class C07Run(E2Run):
    prop = "C07"
    default_monitors = ["c07"]

    def profile(self) -> Dict:
        return {"topologies": ["routed", "routed2", "firewall", "wireless"], "max_hosts_per_subnet": 2, "tight_links": 0.0, "random_acl_rules": (0, 8), "permit_all_rule": 0.5, "avoid": ["listen_on_ports"]}

    # -- model <-> built objects ----------------------------------------------------------------------------------------
    def lists_of(self, node) -> Dict[str, Any]:
        if node.__class__.__name__ == "Firewall":
            return {f"{z}_{d}": getattr(node, f"{z}_{d}_acl") for z in ("internal", "dmz", "external") for d in ("inbound", "outbound")}
        return {"acl": node.acl}

    def rule_from_cfg(self, c: Dict) -> RefRule:
        return RefRule(
            permit=c["action"] == "PERMIT",
            protocol=c["protocol"].lower() if c.get("protocol") else None,
            src_ip=ip_int(c.get("src_ip")),
            src_wc=ip_int(c.get("src_wildcard_mask")),
            dst_ip=ip_int(c.get("dst_ip")),
            dst_wc=ip_int(c.get("dst_wildcard_mask")),
            src_port=PORTS[c["src_port"]] if c.get("src_port") else None,
            dst_port=PORTS[c["dst_port"]] if c.get("dst_port") else None,
        )

    def after_build(self):
        self.devices = [n for n in self.network.nodes.values() if hasattr(n, "acl")]
        self.table: Dict[Tuple[str, str], List[Optional[Tuple]]] = {}
        inv = self.inv
        for n in self.devices:
            hn = n.config.hostname
            for lname, acl in self.lists_of(n).items():
                slots: List[Optional[Tuple]] = [None] * len(acl.acl)
                if hn in inv.get("routers", {}):
                    cfg = inv["routers"][hn]["acl"] if lname == "acl" else {}
                    # routers get the two default rules (22 ARP, 23 ICMP) from the constructor as well
                    slots[22] = RefRule(True, None, None, None, None, None, 219, 219).key()
                    slots[23] = RefRule(True, "icmp").key()
                elif hn in inv.get("firewalls", {}):
                    cfg = inv["firewalls"][hn]["acl"].get(f"{lname}_acl", {}) if lname != "acl" else {}
                    if lname == "acl":
                        slots[22] = RefRule(True, None, None, None, None, None, 219, 219).key()
                        slots[23] = RefRule(True, "icmp").key()
                else:
                    cfg = {}
                for pos, c in (cfg or {}).items():
                    slots[int(pos)] = self.rule_from_cfg(c).key()
                self.table[(hn, lname)] = slots
        self.addr = sorted({str(nic.ip_address) for n in self.network.nodes.values() for nic in n.network_interface.values() if hasattr(nic, "ip_address") and not nic.ip_address.is_loopback})
        self.calls.update({"api_add": self.call_api_add, "api_remove": self.call_api_remove, "probe": self.call_probe, "ping": self.call_ping})
        self.compare_tables("after scenario load")

    def live_table(self, acl) -> List[Optional[Tuple]]:
        from dst.models.acl import rule_from_object

        return [None if r is None else rule_from_object(r).key() for r in acl.acl]

    def compare_tables(self, when: str, changed: Optional[Tuple[str, str, int]] = None):
        for n in self.devices:
            hn = n.config.hostname
            for lname, acl in self.lists_of(n).items():
                live, want = self.live_table(acl), self.table[(hn, lname)]
                if live != want:
                    diff = [i for i, (a, b) in enumerate(zip(live, want)) if a != b]
                    pos = diff[0]
                    clause = "rule-table-differs"
                    if changed and (hn, lname) == changed[:2] and diff != [changed[2]]:
                        clause = "other-position-changed"
                    raise Violation(
                        "C07",
                        clause,
                        f"{when}: {hn}/{lname} position {pos}: built rule {live[pos]} != expected {want[pos]} (fields: permit, protocol, src_ip, src_wc, dst_ip, dst_wc, src_port, dst_port); differing positions {diff}",
                        sig=f"{clause}:{'load' if 'load' in when else when.split()[1] if len(when.split()) > 1 else when}",
                        detail={"device": hn, "list": lname, "positions": diff, "live": jsonable(live[pos]), "want": jsonable(want[pos])},
                    )
                # describe_state must report the same table
                st = acl.describe_state()["acl"]
                for i, r in enumerate(acl.acl):
                    if (st[i] is None) != (r is None):
                        raise Violation("C07", "state-differs-from-rules", f"{when}: {hn}/{lname} describe_state position {i} is {st[i]} but the rule object is {r}", sig="state-differs-from-rules", detail={})

    # -- ops -------------------------------------------------------------------------------------------------------------
    def fields(self, r) -> Dict:
        proto = r.choice([None, None, "tcp", "udp", "icmp"])
        f: Dict[str, Any] = {"permit": r.random() < 0.5, "protocol": proto}
        for side in ("src", "dst"):
            if r.random() < 0.5:
                f[f"{side}_ip"] = r.choice(self.addr + [str(ipaddress.IPv4Address(int(ipaddress.IPv4Address(r.choice(self.addr))) ^ 1))])
                f[f"{side}_wc"] = r.choice([None, None] + WC)
            else:
                f[f"{side}_ip"] = None
                f[f"{side}_wc"] = r.choice([None, None, None] + WC[:3])
            f[f"{side}_port"] = r.choice([None, None, 80, 5432, 53, 21, 22]) if proto in (None, "tcp", "udp") else None
        return f

    def expect_rule(self, f: Dict) -> RefRule:
        return RefRule(f["permit"], f["protocol"], ip_int(f["src_ip"]), ip_int(f["src_wc"]), ip_int(f["dst_ip"]), ip_int(f["dst_wc"]), f["src_port"], f["dst_port"])

    def acl_obj(self, hn: str, lname: str):
        return self.lists_of(self.node(hn))[lname]

    def call_api_add(self, node: str, lst: str, position: int, f: Dict):
        from primaite.simulator.network.hardware.nodes.network.router import ACLAction

        acl = self.acl_obj(node, lst)
        ok = acl.add_rule(action=ACLAction.PERMIT if f["permit"] else ACLAction.DENY, protocol=f["protocol"], src_ip_address=f["src_ip"], src_wildcard_mask=f["src_wc"], dst_ip_address=f["dst_ip"], dst_wildcard_mask=f["dst_wc"], src_port=f["src_port"], dst_port=f["dst_port"], position=position)
        if ok:
            self.table[(node, lst)][position] = self.expect_rule(f).key()
            self.probe("c07_rule_added_api")
        self.compare_tables("after api add_rule", (node, lst, position))

    def call_api_remove(self, node: str, lst: str, position: int):
        acl = self.acl_obj(node, lst)
        if acl.remove_rule(position):
            if self.table[(node, lst)][position] is not None:
                self.probe("c07_rule_removed")
            self.table[(node, lst)][position] = None
        self.compare_tables("after api remove_rule", (node, lst, position))

    def request_for(self, node: str, lst: str, verb: str, position: int, f: Optional[Dict], via_action: bool) -> List:
        fw = lst != "acl"
        zone, direction = (lst.split("_") + [None])[:2] if fw else (None, None)
        if via_action:
            from primaite.game.agent.actions.abstract import AbstractAction

            if verb == "remove":
                if fw:
                    cls = AbstractAction._registry["firewall-acl-remove-rule"]
                    return cls.form_request(cls.ConfigSchema(target_firewall_nodename=node, firewall_port_name=zone, firewall_port_direction=direction, position=position))
                cls = AbstractAction._registry["router-acl-remove-rule"]
                return cls.form_request(cls.ConfigSchema(target_router=node, position=position))
            o = dict(position=position, permission="PERMIT" if f["permit"] else "DENY", src_ip=f["src_ip"] or "ALL", src_wildcard=f["src_wc"] or "NONE", src_port=f["src_port"] if f["src_port"] is not None else "ALL", dst_ip=f["dst_ip"] or "ALL", dst_wildcard=f["dst_wc"] or "NONE", dst_port=f["dst_port"] if f["dst_port"] is not None else "ALL", protocol_name=f["protocol"] or "ALL")
            if fw:
                cls = AbstractAction._registry["firewall-acl-add-rule"]
                return cls.form_request(cls.ConfigSchema(target_firewall_nodename=node, firewall_port_name=zone, firewall_port_direction=direction, **o))
            cls = AbstractAction._registry["router-acl-add-rule"]
            return cls.form_request(cls.ConfigSchema(target_router=node, **o))
        base = ["network", "node", node] + ([zone, direction] if fw else []) + ["acl"]
        if verb == "remove":
            return base + ["remove_rule", position]
        return base + ["add_rule", "PERMIT" if f["permit"] else "DENY", f["protocol"] or "ALL", f["src_ip"] or "ALL", f["src_wc"] or "NONE", f["src_port"] if f["src_port"] is not None else "ALL", f["dst_ip"] or "ALL", f["dst_wc"] or "NONE", f["dst_port"] if f["dst_port"] is not None else "ALL", position]

    def do_req(self, req: List, label: str = "req"):
        resp = super().do_req(req, label)
        meta = getattr(self, "_meta", None)
        if meta:
            node, lst, verb, position, f = meta
            if resp.status == "success":
                if verb == "add":
                    self.table[(node, lst)][position] = self.expect_rule(f).key()
                    self.probe("c07_rule_added_request")
                else:
                    if self.table[(node, lst)][position] is not None:
                        self.probe("c07_rule_removed")
                    self.table[(node, lst)][position] = None
            self.compare_tables(f"after request {verb}_rule", (node, lst, position))
        return resp

    def do_op(self, op: List) -> Any:
        self._meta = op[3] if op[0] == "req" and len(op) > 3 else None
        return super().do_op(op)

    def call_probe(self, node: str, lst: str, pkt: Dict):
        """Put a crafted frame to the list (public AccessControlList.is_permitted); the passive monitor re-decides it."""
        from primaite.simulator.network.protocols.icmp import ICMPPacket
        from primaite.simulator.network.transmission.data_link_layer import EthernetHeader, Frame
        from primaite.simulator.network.transmission.network_layer import IPPacket
        from primaite.simulator.network.transmission.transport_layer import TCPHeader, UDPHeader

        kw: Dict[str, Any] = {}
        if pkt["protocol"] == "tcp":
            kw["tcp"] = TCPHeader(src_port=pkt["src_port"], dst_port=pkt["dst_port"])
        elif pkt["protocol"] == "udp":
            kw["udp"] = UDPHeader(src_port=pkt["src_port"], dst_port=pkt["dst_port"])
        else:
            kw["icmp"] = ICMPPacket(identifier=4242)
        fr = Frame(ethernet=EthernetHeader(src_mac_addr="aa:aa:aa:aa:aa:01", dst_mac_addr="aa:aa:aa:aa:aa:02"), ip=IPPacket(src_ip_address=pkt["src_ip"], dst_ip_address=pkt["dst_ip"], protocol=pkt["protocol"]), payload="probe", **kw)
        self.acl_obj(node, lst).is_permitted(fr)
        self.probe("c07_crafted_frame")
        for m in self.monitors:
            m.after_req(self, [], "probe", None)

    def call_ping(self, src: str, dst_ip: str):
        self.node(src).ping(dst_ip, pings=1)
        for m in self.monitors:
            m.after_req(self, [], "ping", None)

    def workload(self):
        r = self.ops_rng
        n_ops = int(self.args.get("n_ops", 80))
        hosts = [n for n in self.network.nodes.values() if n.__class__.__name__ in ("Computer", "Server", "Printer")]
        if not self.devices:
            return
        for _ in range(n_ops):
            dev = r.choice(self.devices)
            hn = dev.config.hostname
            lst = r.choice(sorted(self.lists_of(dev)))
            if hn in self.inv.get("firewalls", {}) and lst == "acl":
                lst = r.choice([k for k in self.lists_of(dev) if k != "acl"])
            x = r.random()
            position = r.choice([r.randint(0, 23), r.randint(0, 23), 0, 23, 24, 30, -1])
            if x < 0.30:
                f = self.fields(r)
                mode = r.choice(["api", "request", "action"])
                if mode == "api":
                    if 0 <= position <= 23:
                        self.emit(["call", "api_add", {"node": hn, "lst": lst, "position": position, "f": f}])
                else:
                    self.emit(["req", self.request_for(hn, lst, "add", position, f, mode == "action"), f"acl_add_{mode}", [hn, lst, "add", position, f]])
            elif x < 0.42:
                mode = r.choice(["api", "request", "action"])
                occupied = [i for i, s in enumerate(self.table[(hn, lst)]) if s is not None]
                if occupied and r.random() < 0.7:
                    position = r.choice(occupied)
                if mode == "api":
                    if 0 <= position <= 23:
                        self.emit(["call", "api_remove", {"node": hn, "lst": lst, "position": position}])
                else:
                    self.emit(["req", self.request_for(hn, lst, "remove", position, None, mode == "action"), f"acl_remove_{mode}", [hn, lst, "remove", position, None]])
            elif x < 0.85:
                proto = r.choice(["tcp", "udp", "icmp"])
                pkt = {"protocol": proto, "src_ip": r.choice(self.addr), "dst_ip": r.choice(self.addr), "src_port": None, "dst_port": None}
                if proto != "icmp":
                    p = r.choice([80, 5432, 53, 21, 22, 123])
                    pkt["src_port"], pkt["dst_port"] = (p, p) if r.random() < 0.7 else (r.choice([80, 5432, 53]), p)
                self.emit(["call", "probe", {"node": hn, "lst": lst, "pkt": pkt}])
            elif x < 0.95 and len(hosts) >= 2:
                a, b = r.sample(hosts, 2)
                self.emit(["call", "ping", {"src": a.config.hostname, "dst_ip": str(b.network_interface[1].ip_address)}])
            else:
                self.emit(["tick"])


def run(args: Dict) -> Dict:
    return C07Run(args).run()
