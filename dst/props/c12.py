"""C12 - power states gate everything a node does, with the configured timing (E2 bench, all node types).

Reference machine per node: ON -> SHUTTING_DOWN -> OFF -> BOOTING -> ON (direct ON->OFF / OFF->ON when the duration is
0; reset = shutdown followed by an automatic start). Oracles:
  edges      only legal edges, and only at the op that may cause them (request for *-down/-up starts, tick for ends)
  timing     ticks spent in a transitional state are d or d+1 (same offset for every occurrence in the run; 0 for d=0)
  gating     while not ON: interfaces disabled, nothing sent / accepted / handed to software (wrappers), every request
             other than startup refused and without effect, pings to and from the node fail
  off        once OFF no service is RUNNING and no application is open
  return     back ON: interfaces, services and applications that were up before the shutdown are up again
  liveness   an accepted reset brings the node back ON within shut_down+start_up+3 ticks when nobody interferes
"""
from __future__ import annotations

from typing import Any, Dict, List, Optional

from dst.core import Violation, digest, jsonable
from dst.driver_net import E2Run

LEGAL = {("ON", "SHUTTING_DOWN"), ("SHUTTING_DOWN", "OFF"), ("OFF", "BOOTING"), ("BOOTING", "ON"), ("ON", "OFF"), ("OFF", "ON")}


class C12Run(E2Run):
    prop = "C12"

    def profile(self) -> Dict:
        return {"topologies": ["lan", "routed", "routed2", "firewall", "wireless"], "max_hosts_per_subnet": 2, "tight_links": 0.0, "random_acl_rules": (0, 1), "permit_all_rule": 1.0, "avoid": ["listen_on_ports"]}

    # ------------------------------------------------------------------------------------------------------------
    def after_build(self):
        from primaite.simulator.network.hardware.base import NetworkInterface
        from primaite.simulator.system.core.software_manager import SoftwareManager

        self.nodes = list(self.network.nodes.values())
        self.model: Dict[str, Dict] = {}
        for n in self.nodes:
            hn = n.config.hostname
            self.model[hn] = {"state": n.operating_state.name, "since": 0, "resetting": False, "reset_deadline": None, "up_before": None, "offsets": {}}
        self.pending: Optional[Violation] = None
        run = self

        def wrap_if(cls, attr, kind):
            orig = getattr(cls, attr)

            def wrapper(nic, frame, *a, **k):
                node = nic._connected_node
                state = node.operating_state.name if node is not None else "ON"
                res = orig(nic, frame, *a, **k)
                if res and state != "ON" and node is not None and node.operating_state.name != "ON":
                    run.pending = run.pending or Violation("C12", f"interface-{kind}-while-not-on", f"{node.config.hostname} ({state}): interface {nic.port_num} {kind} a frame while the node is not ON", sig=f"interface-{kind}-while-not-on", detail={"node_type": type(node).__name__, "state": state, "shut_down_duration": node.config.shut_down_duration, "start_up_duration": node.config.start_up_duration})
                return res

            wrapper._c12 = True
            return orig, wrapper

        self._unpatch = []
        seen = set()
        for n in self.nodes:
            for nic in n.network_interfaces.values():
                cls = type(nic)
                if cls in seen:
                    continue
                seen.add(cls)
                for attr, kind in (("send_frame", "sent"), ("receive_frame", "accepted")):
                    orig, w = wrap_if(cls, attr, kind)
                    setattr(cls, attr, w)
                    self._unpatch.append((cls, attr, orig))
        orig_recv = SoftwareManager.receive_payload_from_session_manager

        def recv(sm, *a, **k):
            node = sm.node
            if node.operating_state.name != "ON":
                run.pending = run.pending or Violation("C12", "software-handed-payload-while-not-on", f"{node.config.hostname} ({node.operating_state.name}): a payload was handed to the node's software while it is not ON", sig="software-handed-payload-while-not-on", detail={"node_type": type(node).__name__, "state": node.operating_state.name, "shut_down_duration": node.config.shut_down_duration})
            return orig_recv(sm, *a, **k)

        SoftwareManager.receive_payload_from_session_manager = recv
        self._unpatch.append((SoftwareManager, "receive_payload_from_session_manager", orig_recv))
        self.calls["ping"] = self.call_ping
        self.calls["api_enable"] = self.call_api_enable
        self.observe("after build", cause="build")

    def finish(self):
        for cls, attr, orig in getattr(self, "_unpatch", []):
            setattr(cls, attr, orig)

    # ------------------------------------------------------------------------------------------------------------
    def up_snapshot(self, node) -> Dict:
        return {
            "nics": sorted(k for k, nic in node.network_interface.items() if nic.enabled),
            "services": sorted(s.name for s in node.services.values() if s.operating_state.name == "RUNNING"),
            "apps": sorted(a.name for a in node.applications.values() if a.operating_state.name == "RUNNING"),
        }

    def observe(self, when: str, cause: str, target: Optional[str] = None, accepted: Optional[bool] = None, verb: Optional[str] = None):
        """Compare every node with the reference machine after an op. cause: build | request | tick | other."""
        if self.pending is not None:
            v, self.pending = self.pending, None
            raise v
        for n in self.nodes:
            hn = n.config.hostname
            m = self.model[hn]
            cur = n.operating_state.name
            prev = m["state"]
            su, sd = n.config.start_up_duration, n.config.shut_down_duration
            info = {"node_type": type(n).__name__, "start_up_duration": su, "shut_down_duration": sd, "from": prev, "to": cur, "when": when}

            def bad(clause, msg, sig=None):
                raise Violation("C12", clause, f"{when}: {hn} ({type(n).__name__}, start_up={su}, shut_down={sd}): {msg}", sig=sig or clause, detail=info)

            if cur != prev:
                seq = [(prev, cur)]
                # a tick may complete a reset: SHUTTING_DOWN -> OFF -> BOOTING (or -> ON when start_up is 0) in one tick,
                # a request with zero duration may do ON -> OFF (-> ON for reset)
                if (prev, cur) not in LEGAL:
                    if m["resetting"] and (prev, cur) in {("SHUTTING_DOWN", "BOOTING"), ("SHUTTING_DOWN", "ON")}:
                        seq = []
                    elif cause == "request" and target == hn and verb == "reset" and sd == 0 and (prev, cur) == ("ON", "BOOTING"):
                        seq = []  # instantaneous shutdown followed by the automatic start
                    else:
                        bad("illegal-power-edge", f"state went {prev} -> {cur}", sig=f"illegal-power-edge:{prev}->{cur}")
                if cause == "other" or (cause == "request" and target != hn):
                    bad("power-state-changed-without-cause", f"state went {prev} -> {cur} at an op that is neither a power request to this node nor a tick")
                if cause == "request" and target == hn:
                    if verb in ("shutdown", "reset") and prev != "ON":
                        bad("power-request-effect-from-wrong-state", f"{verb} changed the state {prev} -> {cur}")
                    if verb == "startup" and prev != "OFF":
                        bad("power-request-effect-from-wrong-state", f"{verb} changed the state {prev} -> {cur}")
                    if verb in ("shutdown", "reset") and cur not in ("SHUTTING_DOWN", "OFF") and not (verb == "reset" and sd == 0):
                        bad("illegal-power-edge", f"{verb} led {prev} -> {cur}", sig=f"illegal-power-edge:{verb}:{prev}->{cur}")
                    if verb == "startup" and cur not in ("BOOTING", "ON"):
                        bad("illegal-power-edge", f"{verb} led {prev} -> {cur}", sig=f"illegal-power-edge:{verb}:{prev}->{cur}")
                # timing of the transitional state that just ended
                if prev in ("SHUTTING_DOWN", "BOOTING") and cause == "tick":
                    d = sd if prev == "SHUTTING_DOWN" else su
                    spent = self.ticks - m["since"]
                    off = spent - d
                    if d == 0:
                        bad("transitional-state-with-zero-duration", f"node was {prev} although the duration is 0")
                    if off not in (0, 1):
                        bad("transition-timing", f"{prev} lasted {spent} ticks, configured {d}", sig=f"transition-timing:{prev}")
                    key = prev
                    if m["offsets"].setdefault(key, off) != off:
                        bad("transition-timing-inconsistent", f"{prev} lasted {spent} ticks now but d+{m['offsets'][key]} earlier in this run (d={d})")
                    self.probe("c12_timed_transition_completed")
                if prev == "ON":
                    m["up_before"] = m.get("up_snapshot")
                if cur == "ON" and prev != "ON":
                    self.probe("c12_back_on")
                    m["resetting"] = False
                    m["reset_deadline"] = None
                    before = m.get("up_before")
                    if before:
                        now = self.up_snapshot(n)
                        for k in ("nics", "services", "apps"):
                            missing = [x for x in before[k] if x not in now[k] and self.still_exists(n, k, x)]
                            if missing:
                                bad(f"not-restored-after-power-cycle:{k}", f"{k} {missing} were up before the shutdown and are not up after the node returned to ON")
                m["state"] = cur
                m["since"] = self.ticks
            else:
                # stuck in a transitional state for longer than d+1 ticks?
                if cur in ("SHUTTING_DOWN", "BOOTING"):
                    d = sd if cur == "SHUTTING_DOWN" else su
                    if self.ticks - m["since"] > d + 1:
                        bad("transition-never-completes", f"{cur} for {self.ticks - m['since']} ticks, configured {d}", sig=f"transition-never-completes:{cur}")
                    if self.ticks - m["since"] >= 2:
                        self.probe("c12_two_ticks_transitional")
            if cause == "request" and target == hn and accepted and verb == "reset":
                m["resetting"] = True
                m["reset_deadline"] = self.ticks + sd + su + 3
                m["interfered"] = False
            if m["reset_deadline"] is not None and self.ticks > m["reset_deadline"] and not m.get("interfered") and n.operating_state.name != "ON":
                bad("reset-never-restarts", f"an accepted reset did not bring the node back ON within {sd}+{su}+3 ticks (state {n.operating_state.name})")
            # gating invariants
            if cur == "ON":
                m["up_snapshot"] = self.up_snapshot(n)
            else:
                enabled = [k for k, nic in n.network_interface.items() if nic.enabled]
                if enabled:
                    bad("interface-enabled-while-not-on", f"interfaces {enabled} enabled while the node is {cur}", sig="interface-enabled-while-not-on")
                if cur in ("OFF", "BOOTING"):  # (a reset passes through OFF inside one tick and is next seen BOOTING)
                    running = [s.name for s in n.services.values() if s.operating_state.name == "RUNNING"]
                    open_apps = [a.name for a in n.applications.values() if a.operating_state.name == "RUNNING"]
                    if running:
                        bad("service-running-while-off", f"services {running} RUNNING while the node is {cur}")
                    if open_apps:
                        bad("application-open-while-off", f"applications {open_apps} open while the node is {cur}")

    def still_exists(self, node, kind, name) -> bool:
        if kind == "nics":
            return name in node.network_interface and node.network_interface[name]._connected_link is not None if hasattr(node.network_interface[name], "_connected_link") else True
        if kind == "services":
            return name in node.software_manager.software
        return name in node.software_manager.software

    # ------------------------------------------------------------------------------------------------------------
    def node_digest(self, node) -> str:
        return digest(jsonable(node.describe_state()))

    def do_req(self, req: List, label: str = "req"):
        hn = req[2] if len(req) > 2 else None
        node = self.node(hn) if hn else None
        verb = req[3] if len(req) == 4 and req[3] in ("shutdown", "startup", "reset") else None
        pre_state = node.operating_state.name if node is not None else None
        pre_digest = self.node_digest(node) if node is not None and pre_state != "ON" and verb != "startup" else None
        if node is not None and label.startswith("F") and self.model[hn].get("reset_deadline") is not None:
            self.model[hn]["interfered"] = True
        resp = super().do_req(req, label)
        accepted = resp.status == "success"
        if node is not None and pre_state != "ON" and verb != "startup":
            self.probe("c12_request_to_non_on_node")
            if accepted:
                raise Violation("C12", "request-accepted-while-not-on", f"{hn} ({pre_state}): request {req[3:]} succeeded although the node is not ON", sig=f"request-accepted-while-not-on:{'power' if verb else 'other'}", detail={"request": jsonable(req), "state": pre_state, "node_type": type(node).__name__})
            if self.node_digest(node) != pre_digest:
                raise Violation("C12", "refused-request-changed-node", f"{hn} ({pre_state}): refused request {req[3:]} changed the node's state", sig="refused-request-changed-node", detail={"request": jsonable(req), "state": pre_state})
        if verb == "startup" and pre_state != "OFF" and accepted:
            raise Violation("C12", "startup-accepted-while-not-off", f"{hn} ({pre_state}): startup succeeded", sig="startup-accepted-while-not-off", detail={"state": pre_state})
        self.observe(f"after request {req[2:]}", cause="request" if verb else "other", target=hn, accepted=accepted, verb=verb)
        return resp

    def on_tick(self):
        self.observe("after tick", cause="tick")

    def call_ping(self, src: str, dst: str, dst_ip: str):
        a, b = self.node(src), self.node(dst)
        a_on, b_on = a.operating_state.name == "ON", b.operating_state.name == "ON"
        ok = a.ping(dst_ip, pings=1)
        if not a_on or not b_on:
            self.probe("c12_ping_involving_non_on_node")
            if ok:
                raise Violation("C12", "ping-succeeded-with-node-not-on", f"ping {src}({a.operating_state.name}) -> {dst}({b.operating_state.name}) succeeded", sig=f"ping-succeeded-with-node-not-on:{'src' if not a_on else 'dst'}", detail={"src_state": a.operating_state.name, "dst_state": b.operating_state.name, "dst_shut_down_duration": b.config.shut_down_duration, "src_shut_down_duration": a.config.shut_down_duration})
        elif ok:
            self.probe("c12_ping_ok_between_on_nodes")
        self.observe(f"after ping {src}->{dst}", cause="other")
        return ok

    def call_api_enable(self, node: str, port: int):
        """Somebody other than the node's own power handling asks an interface to come up (public NetworkInterface.enable,
        as cabling, Router.enable_port or an episode set-up do)."""
        n = self.node(node)
        nic = n.network_interface.get(port)
        if nic is not None:
            nic.enable()
            self.probe("c12_interface_enable_requested_via_api")
            if n.operating_state.name != "ON":
                self.probe("c12_interface_enable_while_not_on")
        self.observe(f"after interface enable() on {node} port {port}", cause="other")

    # ------------------------------------------------------------------------------------------------------------
    def other_request(self, r, node) -> List:
        hn = node.config.hostname
        base = ["network", "node", hn]
        opts = [base + ["os", "scan"], base + ["scan"], base + ["file_system", "create", "folder", "x"], base + ["file_system", "create", "file", "root", "x.txt", False]]
        for k in node.network_interface:
            opts.append(base + ["network_interface", k, r.choice(["enable", "disable"])])
        for s in node.services.values():
            opts.append(base + ["service", s.name, r.choice(["start", "stop", "restart", "scan", "fix", "enable", "disable", "pause", "resume"])])
        for ap in node.applications.values():
            opts.append(base + ["application", ap.name, r.choice(["execute", "close", "scan", "fix"])])
        opts.append(base + ["software_manager", "application", "install", "database-client"])
        if hasattr(node, "acl"):
            opts.append(base + ["acl", "add_rule", "DENY", "ALL", "ALL", "NONE", "ALL", "ALL", "NONE", "ALL", 3])
            opts.append(base + ["acl", "remove_rule", 3])
        if node.__class__.__name__ == "Firewall":
            for zone in ("internal", "dmz", "external"):
                for direction in ("inbound", "outbound"):
                    opts.append(base + [zone, direction, "acl", "add_rule", "DENY", "ALL", "ALL", "NONE", "ALL", "ALL", "NONE", "ALL", 4])
                    opts.append(base + [zone, direction, "acl", "remove_rule", 4])
        if r.random() < 0.4:
            # any parameterless operation anywhere in the node's live request tree
            from dst.props.c05 import NO_PARAM_LEAVES

            routes = [rt for rt in node._request_manager.get_request_types_recursively() if rt and rt[-1] in NO_PARAM_LEAVES and rt not in (["startup"], ["shutdown"], ["reset"])]  # (power requests: the F1 branch)
            if routes:
                return base + r.choice(routes)
        return r.choice(opts)

    def workload(self):
        r = self.ops_rng
        n_ops = int(self.args.get("n_ops", 80))
        hosts = [n for n in self.nodes if n.__class__.__name__ in ("Computer", "Server", "Printer")]
        focus = r.sample(self.nodes, min(len(self.nodes), r.randint(1, 3)))
        for _ in range(n_ops):
            x = r.random()
            node = r.choice(focus) if r.random() < 0.7 else r.choice(self.nodes)
            hn = node.config.hostname
            if x < 0.30:
                self.emit(["tick"])
            elif x < 0.50:
                self.emit(["req", ["network", "node", hn, r.choice(["shutdown", "startup", "reset", "shutdown"])], "F1_power"])
            elif x < 0.72 and len(hosts) >= 2:
                a, b = r.sample(hosts, 2)
                if r.random() < 0.6 and node in hosts:
                    b = node if a is not node else b
                self.emit(["call", "ping", {"src": a.config.hostname, "dst": b.config.hostname, "dst_ip": str(b.network_interface[1].ip_address)}])
            elif x < 0.78:
                non_on = [n for n in self.nodes if n.operating_state.name != "ON"]
                tgt = r.choice(non_on) if non_on and r.random() < 0.8 else node
                self.emit(["call", "api_enable", {"node": tgt.config.hostname, "port": r.choice(sorted(tgt.network_interface))}])
            else:
                non_on = [n for n in self.nodes if n.operating_state.name != "ON"]
                tgt = r.choice(non_on) if non_on and r.random() < 0.7 else node
                self.emit(["req", self.other_request(r, tgt), "other"])


def run(args: Dict) -> Dict:
    return C12Run(args).run()
