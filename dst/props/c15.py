"""C15 - the file system stays structurally consistent under any operation sequence (E2 bench).

Workload: file-system requests and the file/folder agent actions (translated by the real action classes) with a small
pool of repeated, conflicting names on existing, deleted and never-created targets, interleaved with ticks and node
power events. Oracles after every op: see check().
"""
from __future__ import annotations

from typing import Any, Dict, List, Optional

from dst.core import Violation, jsonable
from dst.driver_net import E2Run

FOLDERS = ["root", "docs", "tmp", "f2"]
FILES = ["a.txt", "b.txt", "c.pdf", "d"]
FILE_ACTIONS = ["node-file-create", "node-file-scan", "node-file-delete", "node-file-restore", "node-file-corrupt", "node-file-access", "node-file-checkhash", "node-file-repair"]
FOLDER_ACTIONS = ["node-folder-scan", "node-folder-checkhash", "node-folder-repair", "node-folder-restore", "node-folder-create"]


class C15Run(E2Run):
    prop = "C15"

    def profile(self) -> Dict:
        return {"topologies": ["lan"], "max_hosts_per_subnet": 1, "initial_files": 0.7, "tight_links": 0.0, "avoid": ["listen_on_ports"]}

    def after_build(self):
        self.hosts = [n for n in self.network.nodes.values() if hasattr(n, "file_system") and n.__class__.__name__ in ("Computer", "Server", "Printer")]
        self.creates_this_tick: Dict[str, int] = {}
        self.deletes_this_tick: Dict[str, int] = {}
        self.counter_trusted: Dict[str, bool] = {}
        for h in self.hosts:
            self.counter_trusted[h.config.hostname] = "database-service" not in h.software_manager.software
        self.check_all("after build")

    # ------------------------------------------------------------------------------------------------------------
    def fs_inventory(self, node) -> Dict:
        fs = node.file_system
        inv = {"live_folders": [f.name for f in fs.folders.values()], "deleted_folders": [f.name for f in fs.deleted_folders.values()], "folders": {}}
        for coll in (fs.folders, fs.deleted_folders):
            for f in coll.values():
                inv["folders"].setdefault(f.name, []).append({"live": [x.name for x in f.files.values()], "deleted": [x.name for x in f.deleted_files.values()], "folder_deleted": f.deleted})
        return inv

    def check_node(self, node, when: str):
        hn = node.config.hostname
        fs = node.file_system

        def bad(clause, msg, **detail):
            # history class of the violation: were there several file objects with one name in a folder (a name that was
            # deleted and created again)? request routes are keyed by name, so this is a distinguishable condition
            collision = False
            for folder in list(fs.folders.values()) + list(fs.deleted_folders.values()):
                nm = [x.name for x in folder.files.values()] + [x.name for x in folder.deleted_files.values()]
                collision = collision or len(nm) != len(set(nm))
            raise Violation("C15", clause, f"{when}: host {hn}: {msg}", sig=clause, detail={"inventory": self.fs_inventory(node), "same_name_objects_in_folder": collision, **detail})

        # folders: partition and flags
        live_ids, del_ids = set(fs.folders), set(fs.deleted_folders)
        if live_ids & del_ids:
            bad("folder-live-and-deleted", f"folder objects in both folders and deleted_folders: {[fs.folders[i].name for i in live_ids & del_ids]}")
        names = [f.name for f in fs.folders.values()]
        if len(names) != len(set(names)):
            bad("duplicate-live-folder-name", f"live folder names not unique: {sorted(names)}")
        for f in fs.folders.values():
            if f.deleted:
                bad("live-folder-flagged-deleted", f"folder {f.name} is in the live set but deleted=True")
        for f in fs.deleted_folders.values():
            if not f.deleted:
                bad("deleted-folder-not-flagged", f"folder {f.name} is in the deleted set but deleted=False")
        # files
        for folder in list(fs.folders.values()) + list(fs.deleted_folders.values()):
            lf, df = set(folder.files), set(folder.deleted_files)
            if lf & df:
                bad("file-live-and-deleted", f"folder {folder.name}: file objects in both files and deleted_files: {[folder.files[i].name for i in lf & df]}")
            fnames = [x.name for x in folder.files.values()]
            if len(fnames) != len(set(fnames)):
                bad("duplicate-live-file-name", f"folder {folder.name}: live file names not unique: {sorted(fnames)}")
            for x in folder.files.values():
                if x.deleted:
                    bad("live-file-flagged-deleted", f"{folder.name}/{x.name} is in the live set but deleted=True")
            for x in folder.deleted_files.values():
                if not x.deleted:
                    bad("deleted-file-not-flagged", f"{folder.name}/{x.name} is in the deleted set but deleted=False")
        # reported state lists exactly the live and the deleted items
        st = fs.describe_state()
        if sorted(st["folders"]) != sorted(names):
            bad("state-live-folders", f"describe_state folders {sorted(st['folders'])} != live folders {sorted(names)}")
        dnames = [f.name for f in fs.deleted_folders.values()]
        if sorted(st["deleted_folders"]) != sorted(set(dnames)):
            bad("state-deleted-folders", f"describe_state deleted_folders {sorted(st['deleted_folders'])} != deleted folders {sorted(dnames)}")
        for folder in fs.folders.values():
            fst = st["folders"][folder.name]
            if sorted(fst["files"]) != sorted(x.name for x in folder.files.values()):
                bad("state-live-files", f"folder {folder.name}: describe_state files {sorted(fst['files'])} != live files {sorted(x.name for x in folder.files.values())}")
            if sorted(fst["deleted_files"]) != sorted({x.name for x in folder.deleted_files.values()}):
                bad("state-deleted-files", f"folder {folder.name}: describe_state deleted_files {sorted(fst['deleted_files'])} != deleted files {sorted(x.name for x in folder.deleted_files.values())}")

    def check_all(self, when: str):
        for h in self.hosts:
            self.check_node(h, when)

    # ------------------------------------------------------------------------------------------------------------
    def on_tick(self):
        for h in self.hosts:
            fs = h.file_system
            if fs.num_file_creations != 0 or fs.num_file_deletions != 0:
                raise Violation("C15", "counters-not-zero-at-tick-start", f"host {h.config.hostname}: counters ({fs.num_file_creations}, {fs.num_file_deletions}) at the start of a tick", sig="counters-not-zero-at-tick-start", detail={})
        self.creates_this_tick = {}
        self.deletes_this_tick = {}
        self.check_all("after tick")

    def do_req(self, req: List, label: str = "req"):
        node = self.node(req[2]) if len(req) > 2 else None
        before = self.fs_inventory(node) if node is not None and hasattr(node, "file_system") else None
        resp = super().do_req(req, label)
        if node is not None and before is not None:
            self.conformance(node, req, label, resp, before)
        self.check_all(f"after {label} {req[3:]}")
        return resp

    def conformance(self, node, req, label, resp, before):
        hn = node.config.hostname
        fs = node.file_system
        ok = resp.status == "success"

        def bad(clause, msg):
            raise Violation("C15", clause, f"host {hn}: {label} {req[3:]} -> {resp.status}: {msg}", sig=clause, detail={"before": before, "after": self.fs_inventory(node), "request": jsonable(req)})

        def live_files(folder):
            f = fs.get_folder(folder)
            return [x.name for x in f.files.values()] if f else []

        def deleted_files(folder):
            f = fs.get_folder(folder, include_deleted=True)
            return [x.name for x in f.deleted_files.values()] if f else []

        kind = label.split(":")[-1]
        if kind == "create_file":
            folder, fname = self._cf
            existed = fname in sum((e["live"] for e in before["folders"].get(folder, [])), [])
            if ok:
                if live_files(folder).count(fname) != 1:
                    bad("create-file-not-live-once", f"after a successful create, {folder}/{fname} appears {live_files(folder).count(fname)} times in the live set")
                if not existed:
                    self.creates_this_tick[hn] = self.creates_this_tick.get(hn, 0) + 1
                    self.probe("file_created")
            if existed:
                self.probe("create_existing_file")
                if self.fs_inventory(node) != before and not ok:
                    bad("refused-create-changed-state", "creating an existing file was refused but changed the file system")
        elif kind == "create_folder":
            folder = self._cf[0]
            existed = folder in before["live_folders"]
            if existed:
                self.probe("create_existing_folder")
                if self.fs_inventory(node) != before:
                    bad("create-existing-folder-changed-state", "creating an existing folder changed the file system")
            elif ok and fs.get_folder(folder) is None:
                bad("create-folder-not-live", "folder not in the live set after a successful create")
        elif kind == "delete_file":
            folder, fname = self._cf
            if ok:
                self.probe("file_deleted")
                self.deletes_this_tick[hn] = self.deletes_this_tick.get(hn, 0) + 1
                if fname in live_files(folder):
                    bad("deleted-file-still-live", f"{folder}/{fname} still in the live set after a successful delete")
                if fname not in deleted_files(folder):
                    bad("deleted-file-not-in-deleted-set", f"{folder}/{fname} not in the deleted set after a successful delete")
        elif kind == "restore_file":
            folder, fname = self._cf
            was_deleted = fname in sum((e["deleted"] for e in before["folders"].get(folder, [])), [])
            if ok and was_deleted:
                self.probe("file_restored")
                if fname not in live_files(folder):
                    bad("restored-file-not-live", f"{folder}/{fname} not in the live set after a successful restore")
                was_live = any(fname in e["live"] for e in before["folders"].get(folder, []))
                n_before = sum(e["deleted"].count(fname) for e in before["folders"].get(folder, []) if not e["folder_deleted"])
                if not was_live and deleted_files(folder).count(fname) != n_before - 1:
                    bad("restored-file-still-deleted", f"{folder}/{fname}: {deleted_files(folder).count(fname)} deleted objects of that name after a successful restore, {n_before} before")
        elif kind == "delete_folder":
            folder = self._cf[0]
            if ok:
                self.probe("folder_deleted")
                if fs.get_folder(folder) is not None:
                    bad("deleted-folder-still-live", f"{folder} still live after a successful delete")
                if fs.get_folder(folder, include_deleted=True) is None:
                    bad("deleted-folder-lost", f"{folder} in neither set after a successful delete")
        elif kind == "restore_folder":
            folder = self._cf[0]
            if ok and folder in before["deleted_folders"]:
                self.probe("folder_restored")
                if fs.get_folder(folder) is None:
                    bad("restored-folder-not-live", f"{folder} not live after a successful restore")
        elif kind.startswith("on_deleted_file"):
            if ok:
                bad("action-on-deleted-file-succeeded", "a request addressed to a deleted file succeeded")
        elif kind.startswith("on_deleted_folder"):
            if ok:
                bad("action-on-deleted-folder-succeeded", "a request addressed to a deleted folder succeeded")

    # ------------------------------------------------------------------------------------------------------------
    def action_request(self, action: str, options: Dict) -> List:
        from primaite.game.agent.actions.abstract import AbstractAction

        cls = AbstractAction._registry[action]
        return cls.form_request(cls.ConfigSchema(**options))

    def do_op(self, op: List) -> Any:
        if op[0] == "req" and len(op) > 3:
            self._cf = op[3]
        return super().do_op(op)

    def workload(self):
        r = self.ops_rng
        n_ops = int(self.args.get("n_ops", 60))
        for _ in range(n_ops):
            node = r.choice(self.hosts)
            hn = node.config.hostname
            fs = node.file_system
            base = ["network", "node", hn, "file_system"]
            x = r.random()
            folder = r.choice(FOLDERS + [f.name for f in fs.folders.values()])
            fobj = fs.get_folder(folder, include_deleted=True)
            known_files = ([f.name for f in fobj.files.values()] + [f.name for f in fobj.deleted_files.values()]) if fobj else []
            fname = r.choice(FILES + known_files + known_files)
            deleted_file = bool(fobj) and fname in [f.name for f in fobj.deleted_files.values()] and fname not in [f.name for f in fobj.files.values()]
            deleted_folder = folder in [f.name for f in fs.deleted_folders.values()] and fs.get_folder(folder) is None
            via_action = r.random() < 0.4
            if x < 0.12:
                self.emit(["tick"])
            elif x < 0.16:
                self.emit(["req", ["network", "node", hn, r.choice(["shutdown", "startup", "reset"])], "F1_power", [hn]])
            elif x < 0.34:
                if via_action:
                    req = self.action_request("node-file-create", {"node_name": hn, "folder_name": folder, "file_name": fname})
                    self.emit(["req", req, "action:create_file", [folder, fname]])
                else:
                    self.emit(["req", base + ["create", "file", folder, fname, False if r.random() < 0.8 else True], "create_file", [folder, fname]])
            elif x < 0.42:
                if via_action:
                    req = self.action_request("node-folder-create", {"node_name": hn, "folder_name": folder})
                    self.emit(["req", req, "action:create_folder", [folder]])
                else:
                    self.emit(["req", base + ["create", "folder", folder], "create_folder", [folder]])
            elif x < 0.56:
                if via_action:
                    req = self.action_request("node-file-delete", {"node_name": hn, "folder_name": folder, "file_name": fname})
                    self.emit(["req", req, "action:delete_file", [folder, fname]])
                elif r.random() < 0.5:
                    self.emit(["req", base + ["delete", "file", folder, fname], "delete_file", [folder, fname]])
                else:
                    self.emit(["req", base + ["folder", folder, "delete", fname], "delete_file", [folder, fname]])
            elif x < 0.62:
                self.emit(["req", base + ["delete", "folder", folder], "delete_folder", [folder]])
            elif x < 0.74:
                if via_action:
                    req = self.action_request("node-file-restore", {"node_name": hn, "folder_name": folder, "file_name": fname})
                    self.emit(["req", req, "action:on_deleted_file_restore" if deleted_file else "action:file_verb", [folder, fname]])
                else:
                    self.emit(["req", base + ["restore", "file", folder, fname], "restore_file", [folder, fname]])
            elif x < 0.80:
                if via_action:
                    req = self.action_request("node-folder-restore", {"node_name": hn, "folder_name": folder})
                    self.emit(["req", req, "action:on_deleted_folder_restore" if deleted_folder else "action:folder_verb", [folder]])
                else:
                    self.emit(["req", base + ["restore", "folder", folder], "restore_folder", [folder]])
            elif x < 0.92:
                verb = r.choice(["scan", "corrupt", "repair", "checkhash", "access"])
                if verb == "access":
                    req = self.action_request("node-file-access", {"node_name": hn, "folder_name": folder, "file_name": fname}) if via_action else base + ["access", folder, fname]
                else:
                    req = self.action_request(f"node-file-{verb}", {"node_name": hn, "folder_name": folder, "file_name": fname}) if via_action else base + ["folder", folder, "file", fname, verb]
                lab = "on_deleted_file_" + verb if (deleted_file or deleted_folder) else "file_verb"
                self.emit(["req", req, lab, [folder, fname]])
            else:
                verb = r.choice(["scan", "corrupt", "repair", "checkhash"])
                if via_action and verb != "corrupt":
                    req = self.action_request(f"node-folder-{verb}", {"node_name": hn, "folder_name": folder})
                else:
                    req = base + ["folder", folder, verb]
                self.emit(["req", req, "on_deleted_folder_" + verb if deleted_folder else "folder_verb", [folder]])


def run(args: Dict) -> Dict:
    return C15Run(args).run()
