"""C05 - requests resolve to a documented status; refused requests change nothing (E2 bench + request tracing).

At random points of faulty histories (nodes off/booting, services stopped/disabled, files deleted, software
uninstalled) the workload submits
  (i)   routes of the live request tree (RequestManager.get_request_types_recursively) with well-formed parameters,
  (ii)  such routes with one element replaced by a guaranteed-absent token or cut short, at every depth,
  (iii) the request of every registered action type that can be filled from the inventory x components of every node
        type, and the same with one component name replaced by an absent one.
A wrapper on RequestManager.__call__ records whether the request ended by a missing key, by a validator, or reached a
handler. Oracle: the answer is a RequestResponse with one of the four statuses (no exception, no None); ended by a
missing key => 'unreachable', by a validator => 'failure' with a reason - never 'success' - and the simulation state
(describe_state of the whole simulation plus route tables) is identical before and after; an action request all of
whose named components exist is never 'unreachable'."""
from __future__ import annotations

import copy
import random
from typing import Any, Dict, List, Optional

from dst.core import Violation, digest, jsonable
from dst.driver_net import E2Run
from dst.monitors.reqtrace import ReqTrace

NO_PARAM_LEAVES = {"scan", "stop", "start", "pause", "resume", "restart", "disable", "enable", "fix", "compromise", "shutdown", "startup", "reset", "execute", "close", "checkhash", "repair", "restore", "corrupt", "logon", "logoff", "do-nothing", "ransomware_launch"}
ABSENT = "no_such_thing_xyz"


class C05Run(E2Run):
    prop = "C05"

    def profile(self) -> Dict:
        return {"max_hosts_per_subnet": 2, "tight_links": 0.0, "avoid": ["listen_on_ports"], "users": 0.7}

    def after_build(self):
        from dst.scenario import Gen

        self.trace = ReqTrace()
        self.trace.install()
        g = Gen(random.Random(self.seed), {})
        g.inv = self.inv
        self.gen = g
        self.actions = g.candidate_actions()

    def finish(self):
        self.trace.uninstall()

    # -- state digest --------------------------------------------------------------------------------------------------
    def state_digest(self) -> str:
        st = jsonable(self.sim.describe_state())
        extra = {}
        for n in self.network.nodes.values():
            rt = getattr(n, "route_table", None)
            if rt is not None:
                extra[n.config.hostname] = [[str(r.address), str(r.subnet_mask), str(r.next_hop_ip_address), r.metric] for r in rt.routes] + [str(rt.default_route.next_hop_ip_address) if rt.default_route else None]
        return digest([st, extra])

    # -- existence predicates for (iii) --------------------------------------------------------------------------------
    def components_exist(self, action: str, o: Dict) -> bool:
        node_name = o.get("node_name") or o.get("target_nodename") or o.get("source_node") or o.get("target_router") or o.get("target_firewall_nodename")
        node = self.node(node_name) if node_name else None
        if node is None:
            return False
        sw = node.software_manager.software
        if "service_name" in o:
            from primaite.simulator.system.services.service import Service

            if not isinstance(sw.get(o["service_name"]), Service):
                return False
        if "application_name" in o and action not in ("node-application-install",):
            from primaite.simulator.system.applications.application import Application

            if not isinstance(sw.get(o["application_name"]), Application):
                return False
        for k in ("nic_num", "port_num"):
            if k in o and o[k] not in node.network_interface:
                return False
        if action.startswith("node-file-") or action.startswith("node-folder-"):
            if not hasattr(node, "file_system"):
                return False
            if action not in ("node-file-create", "node-folder-create"):
                fo = node.file_system.get_folder(o["folder_name"])
                if fo is None:
                    return False
                if "file_name" in o and action not in ("node-file-restore",) and fo.get_file(o["file_name"]) is None:
                    return False
                if action == "node-file-restore" and fo.get_file(o["file_name"], include_deleted=True) is None:
                    return False
        implied = {"configure-database-client": "database-client", "configure-ransomware-script": "ransomware-script", "configure-dos-bot": "dos-bot", "configure-c2-beacon": "c2-beacon", "c2-server-ransomware-launch": "c2-server", "c2-server-ransomware-configure": "c2-server", "c2-server-terminal-command": "c2-server", "c2-server-data-exfiltrate": "c2-server", "node-nmap-ping-scan": "nmap", "node-nmap-port-scan": "nmap", "node-network-service-recon": "nmap", "node-send-remote-command": "terminal", "node-session-remote-login": "terminal", "node-session-remote-logoff": "terminal", "node-send-local-command": "terminal", "node-account-add-user": "user-manager", "node-account-disable-user": "user-manager", "node-account-change-password": "user-manager"}
        if action in implied and implied[action] not in sw:
            return False
        if action.startswith("router-acl") and not hasattr(node, "acl"):
            return False
        if action.startswith("firewall-acl") and node.__class__.__name__ != "Firewall":
            return False
        return True

    # -- file-system names (state reading) and the existence judgement for handler-level refusals ----------------------
    def fs_names(self, node) -> Dict[str, Any]:
        fs = getattr(node, "file_system", None)
        if fs is None:
            return {"live": {}, "deleted": {}}
        live = {f.name: {"files": sorted(x.name for x in f.files.values()), "deleted_files": sorted(x.name for x in f.deleted_files.values())} for f in fs.folders.values()}
        dead = {f.name: {"files": sorted(x.name for x in f.files.values()), "deleted_files": sorted(x.name for x in f.deleted_files.values())} for f in fs.deleted_folders.values() if f.name not in live}
        return {"live": live, "deleted": dead}

    def fs_target_missing(self, req: List) -> Optional[str]:
        """For file-system requests whose folder / file is named by parameters: why the addressed item does not exist
        (None = it exists, or the request is of another kind)."""
        if len(req) < 6 or req[:2] != ["network", "node"] or req[3] != "file_system":
            return None
        node = self.node(req[2])
        if node is None or getattr(node, "file_system", None) is None:
            return None
        names = self.fs_names(node)
        verb = req[4]
        if verb in ("delete", "restore") and len(req) >= 7 and req[5] in ("file", "folder"):
            what, folder = req[5], req[6]
            if what == "folder":
                if verb == "delete":
                    return None if folder in names["live"] else f"folder {folder!r} does not exist"
                return None if (folder in names["deleted"] or folder in names["live"]) else f"no folder {folder!r}, deleted or not"
            if len(req) < 8:
                return None
            file = req[7]
            if folder not in names["live"]:
                return f"folder {folder!r} does not exist" + (" (it is deleted)" if folder in names["deleted"] else "")
            pool = names["live"][folder]["files"] if verb == "delete" else names["live"][folder]["files"] + names["live"][folder]["deleted_files"]
            return None if file in pool else f"file {folder}/{file} does not exist"
        if verb == "access" and len(req) >= 7:
            folder, file = req[5], req[6]
            if folder not in names["live"]:
                return f"folder {folder!r} does not exist"
            return None if file in names["live"][folder]["files"] else f"file {folder}/{file} does not exist"
        return None

    # -- submission + oracle ----------------------------------------------------------------------------------------------
    def do_req(self, req: List, label: str = "req"):
        if not label.startswith("c05"):
            return super().do_req(req, label)
        before = self.state_digest()
        missing = self.fs_target_missing(req)
        # the permission rule every node-level operation other than start-up carries: the node is powered on
        gated = None
        if len(req) >= 4 and req[:2] == ["network", "node"] and req[3] != "startup":
            tn = self.node(req[2]) if isinstance(req[2], str) else None
            if tn is not None and tn.operating_state.name != "ON":
                gated = tn.operating_state.name
        # software addressed by name that is not installed on the node (harness' own reading of the software list)
        gone = None
        if len(req) >= 6 and req[:2] == ["network", "node"] and req[3] in ("application", "service") and isinstance(req[4], str):
            tn = self.node(req[2]) if isinstance(req[2], str) else None
            if tn is not None and req[4] not in tn.software_manager.software:
                gone = f"{req[3]} {req[4]!r} is not installed on {req[2]}"
        self.trace.history.clear()
        resp = super().do_req(req, label)  # raises C05 request-raises on exception
        tr = self.trace.history[0] if self.trace.history else None
        from primaite.interface.request import RequestResponse

        def bad(clause, msg, sig=None):
            raise Violation("C05", clause, f"request {req}: {msg}", sig=sig or clause, detail={"request": jsonable(req), "trace": jsonable({k: v for k, v in (tr or {}).items() if k != 'request'}), "label": label})

        if not isinstance(resp, RequestResponse):
            bad("response-not-a-request-response", f"returned {resp!r}", sig=f"response-not-a-request-response:{self.leafish(req)}")
        if resp.status not in ("success", "failure", "unreachable", "pending"):
            bad("status-not-documented", f"status {resp.status!r}")
        if tr is not None and not tr["handler"]:
            self.probe("c05_refused_before_handler")
            if tr["end"] == "key-miss":
                self.probe("c05_key_miss")
                if resp.status != "unreachable":
                    bad("missing-target-not-unreachable", f"a key was missing at depth {tr['depth']} but the status is {resp.status}")
            elif tr["end"] == "validator":
                self.probe("c05_validator_refusal")
                if resp.status != "failure":
                    bad("validator-refusal-not-failure", f"validator {tr.get('validator')} refused at depth {tr['depth']} but the status is {resp.status}")
                if not (isinstance(resp.data, dict) and resp.data.get("reason")):
                    bad("failure-without-reason", f"validator refusal without a reason: {resp.data}")
            if self.state_digest() != before:
                bad("refused-request-changed-state", f"ended by a {tr['end']} at depth {tr['depth']} but the simulation state changed", sig=f"refused-request-changed-state:{tr['end']}")
        elif tr is not None:
            self.probe("c05_reached_handler")
        if gated is not None:
            self.probe("c05_request_to_node_not_on")
            if resp.status == "success":
                bad("refused-by-rule-answered-success", f"the node is {gated} (the 'node is on' rule refuses everything but start-up), yet the request was answered 'success'", sig=f"refused-by-rule-answered-success:node-{gated}")
            if self.state_digest() != before:
                bad("refused-request-changed-state", f"the node is {gated}, the request was answered {resp.status!r}, but the simulation state changed", sig="refused-request-changed-state:node-not-on")
        if gone is not None:
            self.probe("c05_named_software_missing")
            if resp.status == "success":
                bad("missing-item-answered-success", f"{gone}, yet the request was answered 'success'", sig=f"missing-item-answered-success:{req[3]}")
            if self.state_digest() != before:
                bad("refused-request-changed-state", f"{gone}, the request was answered {resp.status!r}, but the simulation state changed", sig="refused-request-changed-state:missing-software")
        if missing is not None:
            # the folder / file the request addresses does not exist (harness' own reading of the file system)
            self.probe("c05_named_item_missing")
            if resp.status == "success":
                bad("missing-item-answered-success", f"{missing}, yet the request was answered 'success'", sig=f"missing-item-answered-success:{'/'.join(str(x) for x in req[4:6])}")
            if self.state_digest() != before:
                bad("refused-request-changed-state", f"{missing}, the request was answered {resp.status!r}, but the simulation state changed", sig="refused-request-changed-state:missing-item")
        meta = self._meta or {}
        if meta.get("all_exist") and resp.status == "unreachable":
            bad("existing-target-unreachable", f"action {meta['action']} {meta['options']} names only existing components but was answered unreachable", sig=f"existing-target-unreachable:{meta['action']}")
        if meta.get("mutated") and resp.status == "success" and tr is not None and not tr["handler"]:
            bad("mutated-request-succeeded", "a request with an absent element succeeded")
        return resp

    @staticmethod
    def leafish(req: List) -> str:
        return "/".join(str(x) for x in req if isinstance(x, str) and not x.startswith(("host_", "router_", "switch_", "firewall_", "wrouter_")))[:60]

    def do_op(self, op: List) -> Any:
        self._meta = op[3] if op[0] == "req" and len(op) > 3 else None
        return super().do_op(op)

    # -- generation -------------------------------------------------------------------------------------------------------------
    def params_for(self, r, route: List, node) -> Optional[List]:
        leaf = route[-1]
        addr = [str(n.network_interface[1].ip_address) for n in self.network.nodes.values() if 1 in n.network_interface and hasattr(n.network_interface[1], "ip_address")]
        if leaf in NO_PARAM_LEAVES:
            return []
        t = {
            "add_user": [r.choice(["u1", "admin"]), "pw", r.random() < 0.3],
            "disable_user": [r.choice(["u1", "admin", "user0", "ghost"])],
            "change_password": [r.choice(["admin", "user0", "ghost"]), r.choice(["admin", "pw", "x"]), "newpw"],
            "add_rule": [r.choice(["PERMIT", "DENY"]), r.choice(["ALL", "tcp", "icmp"]), r.choice(addr + ["ALL"]), "NONE", r.choice(["ALL", 80]), r.choice(addr + ["ALL"]), "NONE", r.choice(["ALL", 80]), r.choice([0, 5, 23, 24, 40])],
            "remove_rule": [r.choice([0, 5, 23, 24, 40])],
            "access": [r.choice(["root", "docs", "nofolder"]), r.choice(["file_0.txt", "nofile"])],
            "install": [r.choice(["database-client", "web-browser", "not-a-type"])],
            "uninstall": [r.choice(["database-client", "web-browser", "nmap", "not-installed"])],
            "remote_login": [r.choice(["admin", "ghost"]), r.choice(["admin", "bad"]), r.choice(addr)],
            "remote_logout": [r.choice(["bogus-session-id"])],
            "node_session_remote_login": [r.choice(["admin", "ghost"]), r.choice(["admin", "bad"]), r.choice(addr)],
            "remote_logoff": [r.choice(addr)],
            "send_remote_command": [r.choice(addr), {"command": ["file_system", "create", "folder", "rc"]}],
            "send_local_command": [r.choice(["admin", "ghost"]), r.choice(["admin", "bad"]), {"command": ["file_system", "create", "folder", "lc"]}],
            "ping_scan": [{"target_ip_address": r.choice(addr), "show": False}],
            "port_scan": [{"target_ip_address": r.choice(addr), "target_port": 80, "target_protocol": "tcp", "show": False}],
            "network_service_recon": [{"target_ip_address": r.choice(addr), "target_port": 80, "target_protocol": "tcp", "show": False}],
        }
        names = self.fs_names(node) if node is not None else {"live": {}, "deleted": {}}

        def pick_folder(allow_deleted=True):
            pool = list(names["live"]) + (list(names["deleted"]) * 2 if allow_deleted else []) + ["nofolder"]
            return r.choice(pool)

        def pick_file(folder):
            rec = names["live"].get(folder) or names["deleted"].get(folder) or {"files": [], "deleted_files": []}
            return r.choice(rec["files"] + rec["deleted_files"] * 2 + ["nofile", "a.txt"])

        if leaf == "access":
            fo = pick_folder()
            return [fo, pick_file(fo)]
        if leaf == "file" and len(route) >= 2 and route[-2] in ("delete", "restore"):
            fo = pick_folder()
            return [fo, pick_file(fo)]
        if leaf == "folder" and len(route) >= 2 and route[-2] in ("delete", "restore"):
            return [pick_folder()]
        if leaf in t:
            return t[leaf]
        if leaf == "file" and len(route) >= 2 and route[-2] in ("create",):
            return [r.choice(["root", "docs", "newf"]), r.choice(["a.txt", "file_0.txt"]), r.random() < 0.3]
        if leaf == "folder" and len(route) >= 2 and route[-2] == "create":
            return [r.choice(["root", "docs", "newf"])]
        if leaf == "file" and len(route) >= 2 and route[-2] in ("delete", "restore"):
            return [r.choice(["root", "docs", "nofolder"]), r.choice(["a.txt", "file_0.txt", "nofile"])]
        if leaf == "folder" and len(route) >= 2 and route[-2] in ("delete", "restore"):
            return [r.choice(["docs", "tmp", "nofolder", "root"])]
        if leaf == "delete":
            return [r.choice(["a.txt", "file_0.txt", "nofile"])]
        if leaf == "configure":
            return [{"server_ip_address": r.choice(addr), "server_password": "pw"}] if "database-client" in route or "ransomware-script" in route else None
        return None

    def workload(self):
        r = self.ops_rng
        n_ops = int(self.args.get("n_ops", 120))
        nodes = list(self.network.nodes.values())
        for _ in range(n_ops):
            x = r.random()
            node = r.choice(nodes)
            hn = node.config.hostname
            if x < 0.10:
                self.emit(["tick"])
            elif x < 0.22:
                # history faults (not judged by the C05 oracle beyond 'no exception')
                k = r.random()
                if k < 0.4:
                    self.emit(["req", ["network", "node", hn, r.choice(["shutdown", "startup", "reset"])], "F1_power"])
                elif k < 0.7 and node.services:
                    self.emit(["req", ["network", "node", hn, "service", r.choice(sorted(s.name for s in node.services.values())), r.choice(["stop", "disable", "pause", "restart"])], "F4_service"])
                elif node.applications:
                    self.emit(["req", ["network", "node", hn, "software_manager", "application", "uninstall", r.choice(sorted(a.name for a in node.applications.values()))], "F4_install"])
            elif x < 0.34 and getattr(node, "file_system", None) is not None:
                # file-system requests whose folder / file is named by parameters: live, deleted and absent names
                fake_route = ["network", "node", hn, "file_system"] + r.choice([["delete", "file"], ["delete", "file"], ["delete", "folder"], ["delete", "folder"], ["restore", "file"], ["restore", "file"], ["restore", "folder"], ["access"]])
                params = self.params_for(r, fake_route, node)
                self.emit(["req", fake_route + params, "c05_live_route", {"kind": "fs"}])
            elif x < 0.50:
                routes = self.sim._request_manager.get_request_types_recursively()
                route = r.choice(routes)
                tgt = self.node(route[2]) if len(route) > 2 and route[0] == "network" else None
                params = self.params_for(r, route, tgt)
                if params is None:
                    continue
                if r.random() < 0.5:
                    self.emit(["req", route + params, "c05_live_route", {"kind": "live"}])
                else:
                    # (ii) mutate: replace one element of the route part by an absent token, or cut the route short
                    k = r.randrange(len(route))
                    if r.random() < 0.8:
                        mut = route[:k] + [ABSENT] + route[k + 1 :] + params
                    else:
                        mut = route[: max(1, k)]
                        if mut == route:
                            continue
                    self.emit(["req", mut, "c05_mutated_route", {"kind": "mutated", "mutated": True}])
            else:
                a = r.choice(self.actions)
                act = a
                mutated = False
                if r.random() < 0.3:
                    act = self.gen.mutate_missing(a)
                    mutated = True
                try:
                    from primaite.game.agent.actions.abstract import AbstractAction

                    cls = AbstractAction._registry[act["action"]]
                    req = cls.form_request(cls.ConfigSchema(**act["options"]))
                except Exception:
                    continue
                exist = (not mutated) and self.components_exist(act["action"], act["options"])
                self.emit(["req", jsonable(req), "c05_action" + ("_missing" if mutated else ""), {"kind": "action", "action": act["action"], "options": jsonable(act["options"]), "all_exist": exist, "mutated": mutated}])
                if exist:
                    self.probe("c05_action_on_existing_components")


def run(args: Dict) -> Dict:
    return C05Run(args).run()
