"""C10 job function: trajectory runs (E1 + c10 monitor) and load probes (sharing digraph accepted iff acyclic)."""
from __future__ import annotations

import copy
import itertools
import time
from typing import Dict, List

from dst import seams
from dst.core import exc_summary


def has_cycle(n: int, edges: List) -> bool:
    g = {i: [b for a, b in edges if a == i] for i in range(n)}
    color = {}

    def dfs(u):
        color[u] = 1
        for v in g[u]:
            if color.get(v) == 1 or (color.get(v) is None and dfs(v)):
                return True
        color[u] = 2
        return False

    return any(color.get(i) is None and dfs(i) for i in range(n))


def load_probe(args: Dict) -> Dict:
    from primaite.game.game import PrimaiteGame

    seed = int(args["seed"])
    r = seams.stream(seed, "graph")
    seams.begin_run(seams.derive(seed, "entropy"))
    n = r.randint(2, 4)
    pairs = [(a, b) for a in range(n) for b in range(n) if a != b]
    if r.random() < 0.15:
        pairs += [(a, a) for a in range(n)]  # self-sharing is a cycle of length 1
    edges = sorted(p for p in pairs if r.random() < r.choice([0.15, 0.3, 0.5]))
    names = [f"agent_{i}" for i in range(n)]
    order = list(range(n))
    r.shuffle(order)
    agents = []
    for i in order:
        comps = [{"type": "dummy", "weight": 1.0}]
        for a, b in edges:
            if a == i:
                comps.append({"type": "shared-reward", "weight": r.choice([1.0, 0.5]), "options": {"agent_name": names[b]}})
        agents.append({"ref": names[i], "team": "GREEN", "type": "probabilistic-agent", "agent_settings": {"action_probabilities": {0: 1.0}}, "action_space": {"action_map": {0: {"action": "do-nothing", "options": {}}}}, "reward_function": {"reward_components": comps}})
    scenario = {"metadata": {"version": 3.0}, "game": {"max_episode_length": 8, "ports": ["HTTP"], "protocols": ["TCP"]}, "agents": agents, "simulation": {"network": {"nodes": [], "links": []}}}
    cyclic = has_cycle(n, edges)
    raised = None
    try:
        game = PrimaiteGame.from_config(copy.deepcopy(scenario))
    except Exception as e:  # noqa: BLE001
        raised = exc_summary(e)
    violation = None
    if cyclic and raised is None:
        violation = {"property": "C10", "clause": "cyclic-sharing-accepted", "sig": "cyclic-sharing-accepted", "msg": f"sharing digraph {edges} on {n} agents (declared {order}) has a directed cycle but the scenario loaded", "detail": {"edges": edges, "order": order}}
    elif not cyclic and raised is not None:
        violation = {"property": "C10", "clause": "acyclic-sharing-rejected", "sig": f"acyclic-sharing-rejected:{raised['type']}", "msg": f"acyclic sharing digraph {edges} on {n} agents (declared {order}) was rejected: {raised['type']}: {raised['text']}", "detail": {"edges": edges, "order": order, "exc": raised}}
    elif not cyclic:
        # evaluation order must put dependencies first
        pos = {nm: i for i, nm in enumerate(game._reward_calculation_order)}
        for a, b in edges:
            if pos[names[b]] > pos[names[a]]:
                violation = {"property": "C10", "clause": "dependency-evaluated-later", "sig": "dependency-evaluated-later", "msg": f"{names[a]} shares {names[b]}'s reward but is evaluated before it: order {game._reward_calculation_order}", "detail": {"edges": edges, "order": order}}
    return {"kind": "load-probe", "seed": seed, "violation": violation, "harness_error": None, "graph": [n, edges], "edges": len(edges), "cyclic": cyclic, "steps": 0, "probes": {"c10_cycle_probe": 1 if cyclic else 0, "c10_acyclic_probe": 0 if cyclic else 1}, "faults": {}, "ops": [], "scenario": scenario, "n_ops": 0, "shape": "probe", "op_kinds": str([n, edges])}


def run(args: Dict) -> Dict:
    if args.get("kind") == "load-probe":
        return load_probe(args)
    from dst.driver_env import run_e1

    res = run_e1(args)
    res["kind"] = "trajectory"
    return res
