"""C16 - logins need valid credentials; remote commands need a live session (E2 bench, 2-3 hosts, reference model).

Reference model per node: accounts (password, enabled, admin); per (client, server) pair the remote sessions opened by
successful logins, each with the tick of its last use. A session is *certainly dead* after logoff, after a password
change of its user, or once its inactivity time-out has certainly passed (last use + time-out + 1 tick); a power cycle of
either end makes its state unknown (the statement does not fix that) and nothing is asserted about it.
Every command carries a fresh, uniquely named effect (create folder probe_<n> on the target) so that execution is
observable on the target's file system.
Safety oracles:
  login-ok    a login reported successful => existing, enabled account with the current password, both nodes ON, both
              terminals RUNNING, and fewer than max_remote_sessions certainly-live sessions on the server
  effect      a probe folder appears on the target => the issuing side holds a session to it that is not certainly dead
              (remote), or the credentials were valid (local command); never while the target is not ON or its terminal
              is not RUNNING
  last-admin  every node keeps at least one enabled administrator account
"""
from __future__ import annotations

import copy

from typing import Any, Dict, List, Optional

from dst.core import Violation, jsonable
from dst.driver_net import E2Run


class C16Run(E2Run):
    prop = "C16"

    def profile(self) -> Dict:
        return {"topologies": ["lan", "lan", "routed"], "max_hosts_per_subnet": 2, "tight_links": 0.0, "random_acl_rules": (0, 0), "permit_all_rule": 1.0, "users": 1.0, "durations": [0, 1, 2], "avoid": ["listen_on_ports"]}

    def after_build(self):
        self.hosts = [n for n in self.network.nodes.values() if n.__class__.__name__ in ("Computer", "Server", "Printer")]
        self.acct: Dict[str, Dict[str, Dict]] = {}
        for n in self.hosts:
            um = n.user_manager
            self.acct[n.config.hostname] = {u.username: {"password": u.password, "disabled": u.disabled, "admin": u.is_admin} for u in um.users.values()}
        self.sessions: List[Dict] = []  # remote sessions: client, server, user, last, state (live|dead|unknown)
        self.knobs: Dict[str, Dict] = {n.config.hostname: {"timeout": 30, "max": 3} for n in self.hosts}
        self.n_probe = 0
        self.calls.update({"set_knobs": self.call_set_knobs, "api_local_login": self.call_api_local_login})
        self.ip = {n.config.hostname: str(n.network_interface[1].ip_address) for n in self.hosts}
        self.by_ip = {v: k for k, v in self.ip.items()}

    def call_set_knobs(self, node: str, timeout: int, max_sessions: int, local_timeout: Optional[int] = None):
        """Documented public attributes of the user session manager (docs: user session timeouts / max sessions)."""
        usm = self.node(node).user_session_manager
        usm.remote_session_timeout_steps = timeout
        usm.local_session_timeout_steps = timeout if local_timeout is None else local_timeout
        usm.max_remote_sessions = max_sessions
        self.knobs[node] = {"timeout": timeout, "max": max_sessions}

    def call_api_local_login(self, node: str, user: str, password: str):
        """Node.local_login - the public Python entry point a scripted agent or notebook uses; it bypasses the request
        tree's node-is-on rule, so the session manager's own power guard is what keeps a node that is OFF, BOOTING or
        SHUTTING_DOWN from accepting a login."""
        n = self.node(node)
        state = n.operating_state.name
        a = self.acct.get(node, {}).get(user)
        sid = n.local_login(user, password)
        if sid is not None:
            if state != "ON":
                raise Violation("C16", "login-succeeded-without-valid-conditions", f"local login (Node.local_login) on {node} as {user} succeeded while the node is {state}", sig="login-succeeded-without-valid-conditions:node " + state, detail={"state": state})
            if a is None or a["disabled"] or a["password"] != password:
                raise Violation("C16", "login-succeeded-without-valid-conditions", f"local login (Node.local_login) on {node} as {user}/{password} succeeded; model account {a}", sig="login-succeeded-without-valid-conditions:local api", detail={"model_account": a})
            self.probe("c16_api_local_login_ok")
            n.local_logout()
        elif state != "ON":
            self.probe("c16_api_local_login_refused_node_" + state)

    # -- model helpers ---------------------------------------------------------------------------------------------
    def srv_time(self, server: str) -> int:
        return self.t

    def refresh(self):
        """Time-outs: a session is certainly dead once last + timeout + 1 <= now (one tick of tolerance)."""
        for s in self.sessions:
            if s["state"] in ("live", "unknown"):
                # (whatever made a session's state unknown - a power cycle, a restarted terminal - its inactivity
                # timer keeps running: past the latest possible last activity + time-out it is dead)
                to = self.knobs[s["server"]]["timeout"]
                if self.t >= s["hi"] + to + 1:
                    s["state"] = "dead"
                    s["why"] = "time-out"
                    self.probe("c16_session_timed_out")

    def live_possible(self, client: str, server: str) -> List[Dict]:
        return [s for s in self.sessions if s["client"] == client and s["server"] == server and s["state"] in ("live", "unknown")]

    def certainly_live_on(self, server: str) -> int:
        n = 0
        for s in self.sessions:
            if s["server"] == server and s["state"] == "live" and self.t < s["lo"] + self.knobs[server]["timeout"]:
                n += 1
        return n

    def terminal_up(self, node) -> bool:
        t = node.software_manager.software.get("terminal")
        return node.operating_state.name == "ON" and t is not None and t.operating_state.name == "RUNNING"

    def check_admins(self, when: str):
        for n in self.hosts:
            um = n.user_manager
            if um is None:
                continue
            admins = [u.username for u in um.users.values() if u.is_admin and not u.disabled]
            if not admins:
                raise Violation("C16", "last-admin-disabled", f"{when}: {n.config.hostname} has no enabled administrator account left", sig="last-admin-disabled", detail={"users": {u.username: [u.is_admin, u.disabled] for u in um.users.values()}})

    def probe_exists(self, node, name: str) -> bool:
        return node.file_system.get_folder(name) is not None

    # -- ops ---------------------------------------------------------------------------------------------------------------
    def do_req(self, req: List, label: str = "req"):
        self.refresh()
        hn = req[2]
        node = self.node(hn)
        meta = self._meta or {}
        kind = meta.get("kind")
        pre_power = {n.config.hostname: n.operating_state.name for n in self.hosts}
        target = self.node(meta["target"]) if meta.get("target") else None
        target_ok = target is not None and self.terminal_up(target)
        client_ok = self.terminal_up(node) if node is not None else False
        resp = super().do_req(req, label)
        ok = resp.status == "success"
        # power events make session state unknown
        for n in self.hosts:
            if n.operating_state.name != pre_power[n.config.hostname]:
                for s in self.sessions:
                    if n.config.hostname in (s["client"], s["server"]) and s["state"] == "live":
                        s["state"] = "unknown"
        if kind in ("stop_terminal",) and ok:
            for s in self.sessions:
                if hn in (s["client"], s["server"]) and s["state"] == "live":
                    s["state"] = "unknown"
        if kind == "remote_command" and meta.get("target"):
            # the terminal finds "its connection to that address" among client- and server-side connections alike: a
            # command or logoff issued towards a node that is logged in HERE goes out on that node's session and may
            # end it (the far end rejects it and disconnects); such sessions are no longer certainly live
            for s in self.sessions:
                if s["server"] == hn and s["client"] == meta["target"] and s["state"] == "live":
                    s["state"] = "unknown"
        um_on = node is not None and node.operating_state.name == "ON" and pre_power.get(hn) == "ON"
        acc = self.acct.get(hn, {})
        if kind == "add_user" and ok:
            acc[meta["user"]] = {"password": meta["password"], "disabled": False, "admin": meta["admin"]}
        elif kind == "disable_user" and ok:
            if meta["user"] in acc:
                acc[meta["user"]]["disabled"] = True
            self.probe("c16_user_disabled")
        elif kind == "change_password":
            if ok:
                a = acc.get(meta["user"])
                if a is None or a["password"] != meta["current"]:
                    raise Violation("C16", "password-changed-with-wrong-credentials", f"{hn}: change_password for {meta['user']} succeeded with current password {meta['current']!r}; model {a}", sig="password-changed-with-wrong-credentials", detail={})
                a["password"] = meta["new"]
                for s in self.sessions:
                    if s["server"] == hn and s["user"] == meta["user"] and s["state"] in ("live", "unknown"):
                        s["state"] = "dead"
                        s["why"] = "password change"
                self.probe("c16_password_changed")
        elif kind == "remote_login":
            srv = meta["target"]
            a = self.acct.get(srv, {}).get(meta["user"])
            if ok:
                self.probe("c16_remote_login_ok")
                reasons = []
                if a is None:
                    reasons.append("no such account")
                elif a["disabled"]:
                    reasons.append("account disabled")
                elif a["password"] != meta["password"]:
                    reasons.append("wrong password")
                if not target_ok:
                    reasons.append("server not ON / terminal not RUNNING")
                if not client_ok:
                    reasons.append("client not ON / terminal not RUNNING")
                if self.certainly_live_on(srv) >= self.knobs[srv]["max"]:
                    reasons.append(f"{self.certainly_live_on(srv)} live remote sessions, max {self.knobs[srv]['max']}")
                if reasons:
                    raise Violation("C16", "login-succeeded-without-valid-conditions", f"remote login {hn} -> {srv} as {meta['user']}/{meta['password']} succeeded although: {', '.join(reasons)}", sig="login-succeeded-without-valid-conditions:" + reasons[0].split(",")[0][:30], detail={"model_account": a, "sessions": jsonable(self.sessions)})
                # lo / hi: earliest and latest possible tick of the session's last activity
                self.sessions.append({"client": hn, "server": srv, "user": meta["user"], "lo": self.t, "hi": self.t, "state": "live"})
            else:
                self.probe("c16_remote_login_refused")
                # bounded liveness: valid credentials, both ends up, interfaces up, and even counting every session
                # that might still be alive there is room - the login must be accepted
                possibly = sum(1 for s_ in self.sessions if s_["server"] == srv and s_["state"] in ("live", "unknown"))
                nics_up = all(any(n_.enabled for n_ in x.network_interface.values()) for x in (node, target) if x is not None)
                if a is not None and not a["disabled"] and a["password"] == meta["password"] and target_ok and client_ok and nics_up and possibly < self.knobs[srv]["max"] and hn != srv:
                    self.probe("c16_login_expected")
                    raise Violation("C16", "login-refused-although-possible", f"remote login {hn} -> {srv} as {meta['user']} was refused although the account is enabled, the password is current, both terminals are up and at most {possibly} of {self.knobs[srv]['max']} sessions can be open", sig="login-refused-although-possible", detail={"sessions": jsonable(self.sessions), "t": self.t})
                # the server may have authorised the login although the client never saw the answer (its terminal not
                # accepting traffic): a half-open session may exist on the server
                if a is not None and not a["disabled"] and a["password"] == meta["password"] and target_ok:
                    self.sessions.append({"client": hn, "server": srv, "user": meta["user"], "lo": self.t, "hi": self.t, "state": "unknown", "why": "half-open"})
        elif kind == "remote_logoff" and ok:
            # the first connection the client holds for that address is ended; which one that is, is the client's
            # business: all sessions of the pair become 'unknown' except when there is exactly one candidate
            # (the terminal searches client- and server-side connections alike, so sessions the target holds HERE are
            # candidates too)
            cands = self.live_possible(hn, meta["target"]) + self.live_possible(meta["target"], hn)
            # connection objects of sessions that ended without the client hearing of it (timed out or password changed
            # while it was rebooting) are still in the client's list and may be the one that gets "logged off"
            stale = [s_ for s_ in self.sessions if {s_["client"], s_["server"]} == {hn, meta["target"]} and s_["state"] == "dead" and s_.get("why") != "logoff"]
            # the far end only learns of the logoff if the notice can be delivered
            deliverable = target_ok and all(any(n_.enabled for n_ in x.network_interface.values()) for x in (node, target) if x is not None)
            if len(cands) == 1 and cands[0]["client"] == hn and not stale and deliverable:
                cands[0]["state"] = "dead"
                cands[0]["why"] = "logoff"
            elif len(cands) == 1:
                # logoff issued by the server side: the terminal connection goes, the server's own session record stays
                # until it times out - no longer usable, but still counted
                cands[0]["state"] = "unknown"
            else:
                for s in cands:
                    s["state"] = "unknown"
            self.probe("c16_remote_logoff")
        elif kind == "remote_command":
            srv = meta["target"]
            appeared = self.probe_exists(target, meta["probe"]) if target is not None else False
            if appeared:
                self.probe("c16_remote_command_executed")
                cands = self.live_possible(hn, srv)
                if not target_ok:
                    raise Violation("C16", "command-executed-on-unavailable-target", f"remote command {hn} -> {srv} created {meta['probe']} although the target was not ON / its terminal not RUNNING", sig="command-executed-on-unavailable-target", detail={})
                if not cands:
                    dead = [s for s in self.sessions if s["client"] == hn and s["server"] == srv]
                    why = sorted({s.get("why", "?") for s in dead}) or ["never logged in"]
                    raise Violation("C16", "command-executed-without-live-session", f"remote command {hn} -> {srv} created {meta['probe']} on the target although no session of that pair can be live (sessions ended by: {why})", sig="command-executed-without-live-session:" + "+".join(why), detail={"sessions": jsonable(self.sessions), "t": self.t})
                # the command travelled on ONE of the candidate sessions (the client's choice): only that one's
                # inactivity timer was reset
                for s in cands:
                    s["hi"] = self.t
                    if s["state"] == "live" and len(cands) == 1:
                        s["lo"] = self.t
            else:
                self.probe("c16_remote_command_no_effect")
        elif kind == "local_command":
            appeared = self.probe_exists(node, meta["probe"])
            a = acc.get(meta["user"])
            if appeared:
                self.probe("c16_local_command_executed")
                if a is None or a["disabled"] or a["password"] != meta["password"]:
                    raise Violation("C16", "local-command-with-invalid-credentials", f"{hn}: local command as {meta['user']}/{meta['password']} created {meta['probe']}; model account {a}", sig="local-command-with-invalid-credentials", detail={})
                if not client_ok:
                    raise Violation("C16", "command-executed-on-unavailable-target", f"{hn}: local command executed although the node was not ON / terminal not RUNNING", sig="command-executed-on-unavailable-target:local", detail={})
        self.check_admins(f"after {kind or req[3:]}")
        return resp

    def do_op(self, op: List) -> Any:
        self._meta = op[3] if op[0] == "req" and len(op) > 3 else None
        return super().do_op(op)

    def on_tick(self):
        self.refresh()
        self.check_admins("after tick")

    # -- workload ----------------------------------------------------------------------------------------------------------
    def workload(self):
        r = self.ops_rng
        n_ops = int(self.args.get("n_ops", 90))
        for n in self.hosts:
            self.emit(["call", "set_knobs", {"node": n.config.hostname, "timeout": r.choice([2, 3, 4, 6]), "max_sessions": r.choice([1, 2, 3]), "local_timeout": r.choice([2, 4, 6, 30])}])
        pw_pool = ["pw", "secret", "admin", "changed", "bad"]
        for _ in range(n_ops):
            a = r.choice(self.hosts)
            hn = a.config.hostname
            others = [h for h in self.hosts if h is not a]
            b = r.choice(others) if others else a
            bn = b.config.hostname
            base = ["network", "node", hn]
            x = r.random()
            users_b = list(self.acct[bn]) + ["ghost"]
            users_a = list(self.acct[hn]) + ["ghost"]
            if x < 0.04 and others:
                # log off while the client's own terminal service is not running, then come back and log in again
                u = r.choice(list(self.acct[bn]))
                pw = self.acct[bn][u]["password"]
                self.emit(["req", base + ["service", "terminal", "node_session_remote_login", u, pw, self.ip[bn]], "login", {"kind": "remote_login", "target": bn, "user": u, "password": pw}])
                down, up = r.choice([("stop", "start"), ("pause", "resume"), ("restart", None)])
                self.emit(["req", base + ["service", "terminal", down], "F4_service", {"kind": "stop_terminal"}])
                self.emit(["req", base + ["service", "terminal", "remote_logoff", self.ip[bn]], "logoff", {"kind": "remote_logoff", "target": bn}])
                if up:
                    self.emit(["req", base + ["service", "terminal", up], "F4_service", {"kind": "stop_terminal"}])
                else:
                    for _ in range(4):
                        self.emit(["tick"])
                self.emit(["req", base + ["service", "terminal", "node_session_remote_login", u, pw, self.ip[bn]], "login", {"kind": "remote_login", "target": bn, "user": u, "password": pw}])
                self.probe("c16_logoff_with_client_terminal_down_motif")
            elif x < 0.07 and others:
                # the server sleeps through the session's time-out and is used again the moment it is back
                u = r.choice(list(self.acct[bn]))
                pw = self.acct[bn][u]["password"]
                self.emit(["req", base + ["service", "terminal", "node_session_remote_login", u, pw, self.ip[bn]], "login", {"kind": "remote_login", "target": bn, "user": u, "password": pw}])
                self.emit(["req", ["network", "node", bn, "shutdown"], "F1_power", {"kind": "power"}])
                for _ in range(self.knobs[bn]["timeout"] + b.config.shut_down_duration + r.choice([1, 2, 3])):
                    self.emit(["tick"])
                self.emit(["req", ["network", "node", bn, "startup"], "F1_power", {"kind": "power"}])
                for _ in range(b.config.start_up_duration):
                    self.emit(["tick"])
                self.n_probe += 1
                probe = f"probe_{self.n_probe}"
                self.emit(["req", base + ["service", "terminal", "send_remote_command", self.ip[bn], {"command": ["file_system", "create", "folder", probe]}], "command", {"kind": "remote_command", "target": bn, "probe": probe}])
                self.probe("c16_server_sleeps_past_timeout_motif")
            elif x < 0.11 and others:
                # logins that land inside the server's shut-down or start-up window (durations 1-2 ticks): a node that
                # is SHUTTING_DOWN or BOOTING is not powered on
                u = r.choice(list(self.acct[bn]))
                pw = self.acct[bn][u]["password"]
                login = ["req", base + ["service", "terminal", "node_session_remote_login", u, pw, self.ip[bn]], "login", {"kind": "remote_login", "target": bn, "user": u, "password": pw}]
                self.emit(["req", ["network", "node", bn, "shutdown"], "F1_power", {"kind": "power"}])
                for _ in range(r.choice([0, 0, 1])):
                    self.emit(["tick"])
                self.emit(copy.deepcopy(login))
                self.emit(["call", "api_local_login", {"node": bn, "user": u, "password": pw}])
                for _ in range(b.config.shut_down_duration + 1):
                    self.emit(["tick"])
                self.emit(["req", ["network", "node", bn, "startup"], "F1_power", {"kind": "power"}])
                for _ in range(r.choice([0, 0, 1])):
                    self.emit(["tick"])
                self.emit(copy.deepcopy(login))
                self.emit(["call", "api_local_login", {"node": bn, "user": u, "password": pw}])
                self.probe("c16_login_inside_power_transition_motif")
            elif x < 0.22:
                self.emit(["tick"])
            elif x < 0.40:
                u = r.choice(users_b)
                good = self.acct[bn].get(u, {}).get("password", "x")
                pw = good if r.random() < 0.7 else r.choice(pw_pool)
                self.emit(["req", base + ["service", "terminal", "node_session_remote_login", u, pw, self.ip[bn]], "login", {"kind": "remote_login", "target": bn, "user": u, "password": pw}])
            elif x < 0.62:
                self.n_probe += 1
                probe = f"probe_{self.n_probe}"
                self.emit(["req", base + ["service", "terminal", "send_remote_command", self.ip[bn], {"command": ["file_system", "create", "folder", probe]}], "command", {"kind": "remote_command", "target": bn, "probe": probe}])
            elif x < 0.68:
                self.emit(["req", base + ["service", "terminal", "remote_logoff", self.ip[bn]], "logoff", {"kind": "remote_logoff", "target": bn}])
            elif x < 0.74:
                u = r.choice(users_a)
                good = self.acct[hn].get(u, {}).get("password", "x")
                cur = good if r.random() < 0.7 else r.choice(pw_pool)
                new = r.choice(pw_pool)
                self.emit(["req", base + ["service", "user-manager", "change_password", u, cur, new], "account", {"kind": "change_password", "user": u, "current": cur, "new": new}])
            elif x < 0.79:
                u = r.choice(users_a)
                self.emit(["req", base + ["service", "user-manager", "disable_user", u], "account", {"kind": "disable_user", "user": u}])
            elif x < 0.83:
                u = r.choice(["newuser", "user0", "second_admin"])
                adm = r.random() < 0.4
                self.emit(["req", base + ["service", "user-manager", "add_user", u, "pw", adm], "account", {"kind": "add_user", "user": u, "password": "pw", "admin": adm}])
            elif x < 0.90:
                self.n_probe += 1
                probe = f"probe_{self.n_probe}"
                u = r.choice(users_a)
                good = self.acct[hn].get(u, {}).get("password", "x")
                pw = good if r.random() < 0.7 else r.choice(pw_pool)
                self.emit(["req", base + ["service", "terminal", "send_local_command", u, pw, {"command": ["file_system", "create", "folder", probe]}], "command", {"kind": "local_command", "user": u, "password": pw, "probe": probe}])
            elif x < 0.94:
                self.emit(["req", base + [r.choice(["shutdown", "startup", "reset"])], "F1_power", {"kind": "power"}])
            elif x < 0.97:
                self.emit(["req", base + ["service", "terminal", r.choice(["stop", "start", "restart"])], "F4_service", {"kind": "stop_terminal"}])
            else:
                self.emit(["req", base + ["network_interface", 1, r.choice(["disable", "enable"])], "F2_nic", {"kind": "nic"}])


def run(args: Dict) -> Dict:
    return C16Run(args).run()
