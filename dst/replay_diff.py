"""Replay a differential violation file: `python -m dst.replay_diff <file>`; exit 1 if the divergence reproduces."""
import importlib
import json
import sys


def main(path: str) -> int:
    from dst.diff import DiffRunner

    rec = json.load(open(path))
    mod = importlib.import_module(rec.get("module") or f"checks.{rec['property'].lower()}")
    rn = DiffRunner(mod.Spec(), "quick", 0)
    rn.known = []
    res = rn.evaluate_cases([rec["case"]])
    rn.close()
    v = res[0][2] if res else None
    if v and v["sig"] == rec["violation"]["sig"]:
        print(f"VIOLATION property={rec['property']} replay={path}")
        print("  " + v["msg"][:600])
        return 1
    print(f"replay of {path}: {rec['violation']['sig']} did NOT reproduce (got {v['sig'] if v else None})")
    return 0


if __name__ == "__main__":
    sys.exit(main(sys.argv[1]))
