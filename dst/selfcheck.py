"""setup_cmd: sanity import + seam self-check (nothing to build; there is no build step - checks run /repo/src as it is)."""
import sys


def main() -> int:
    from dst.pool import exec_job

    job = {"id": 0, "fn": "dst.selfcheck:probe", "args": {}, "timeout": 120}
    r = exec_job(job, hashseed=0)
    if r.get("status") != "ok":
        print("selfcheck failed:", r.get("status"), r.get("error"), r.get("tb"))
        return 2
    print("selfcheck ok:", r["result"])
    # short determinism self-test: same seed forked twice (different worker counts) and exec'ed must agree
    import subprocess

    from dst.pool import PYTHON, VERIF_ROOT

    p = subprocess.run([PYTHON, "-m", "checks.selftest", "--n", "16", "--execs", "4"], cwd=VERIF_ROOT, env={**__import__("os").environ, "PYTHONPATH": VERIF_ROOT}, capture_output=True, text=True)
    print(p.stdout[-600:])
    return 0 if p.returncode == 0 else 2


def probe(args):
    from dst import seams

    seams.begin_run(7)
    import primaite
    from primaite.simulator.core import SimComponent  # noqa: F401
    from primaite.simulator.network.hardware.base import generate_mac_address

    a = generate_mac_address()
    seams.begin_run(7)
    b = generate_mac_address()
    assert a == b, "entropy seam not effective"
    from primaite.simulator.network.transmission import data_link_layer

    assert data_link_layer.datetime is seams.FakeDateTime
    return {"primaite": primaite.__file__, "version": primaite.__version__, "seams": seams.INSTALL_LOG, "mac": a}


if __name__ == "__main__":
    sys.exit(main())
