"""Run one job (JSON on stdin) in this freshly exec'ed interpreter; used by replay and by the determinism self-test."""
import json
import sys


def main():
    real_torch = "--real-torch" in sys.argv
    job = json.loads(sys.stdin.read())
    from dst import seams

    seams.install(torch_stub=not real_torch)
    from dst.zygote import run_job_inline

    out = run_job_inline(job)
    sys.stdout.write("\n@@RESULT@@" + json.dumps(out, default=str))
    sys.stdout.flush()


if __name__ == "__main__":
    main()
