"""Seeded scenario swarm (DESIGN.md 3.2): returns plain scenario dicts - the structure a YAML file parses to - so that
every run exercises the real PrimaiteGame.from_config. No primaite import here: generation is a pure function of the
PRNG stream and the profile.

generate(rng, profile) -> (scenario_dict, inventory)

inventory is the generator's own record of what it declared (hosts, addresses, software, files, links, ACL rules,
routes, agents); reference models (C08, C20, ...) are initialised from it, never from the built objects.
"""
from __future__ import annotations

import copy
import os
import random
from typing import Any, Dict, List, Optional, Tuple

SHIPPED_DIR = os.path.join(os.environ.get("PRIMAITE_VERIF_SRC", "/repo/src"), "primaite/config/_package_data")

SHIPPED_FILES = [
    "data_manipulation.yaml",
    "data_manipulation_marl.yaml",
    "uc7_config.yaml",
    "uc7_config_tap003.yaml",
]
SHIPPED_DIRS = ["mini_scenario_with_simulation_variation", "scenario_with_placeholders", "uc7_multiple_attack_variants"]

IO_OFF = {
    "save_agent_actions": False,
    "save_step_metadata": False,
    "save_pcap_logs": False,
    "save_sys_logs": False,
    "save_agent_logs": False,
    "write_sys_log_to_terminal": False,
    "write_agent_log_to_terminal": False,
}
IO_ON = {
    "save_agent_actions": True,
    "save_step_metadata": True,
    "save_pcap_logs": True,
    "save_sys_logs": True,
    "save_agent_logs": True,
    "write_sys_log_to_terminal": False,
    "write_agent_log_to_terminal": False,
    "sys_log_level": "DEBUG",
    "agent_log_level": "DEBUG",
}


def vary_tap_settings(cfg: Dict, rng: random.Random, mode_rng: Optional[random.Random] = None, force_fast: bool = False, zero_stage: Optional[str] = None) -> None:
    """Generated kill-chain options for the TAP001 / TAP003 threat-actor agents of the shipped UC7 scenarios (the
    topology and everything else stay as shipped): schedule, repeat flags, per-stage probabilities, scan settings."""
    exhaust = rng.random() < 0.34  # TAP001: a scan campaign that runs out of networks and has to choose again
    for a in cfg.get("agents", []):
        t = str(a.get("type", "")).lower()
        if not t.startswith("tap"):
            continue
        s = a["agent_settings"]
        if mode_rng is not None and t == "tap-001" and (mode_rng.random() < 0.3 or force_fast):
            # a short scan campaign (the target subnet first), so the later stages - command and control, payload - are
            # reached well inside a run and defender interference can land in them
            s.update({"frequency": mode_rng.choice([2, 3]), "variance": 0, "start_step": 1, "repeat_kill_chain": mode_rng.random() < 0.3, "repeat_kill_chain_stages": mode_rng.random() < 0.5})
            for stage, opts in (s.get("kill_chain") or {}).items():
                if isinstance(opts, dict) and "probability" in opts:
                    opts["probability"] = 1
            prop = s["kill_chain"]["PROPAGATE"]
            prop.update({"network_addresses": [n for n in prop["network_addresses"] if n.startswith("192.168.220.")]})
            s["kill_chain"]["PAYLOAD"]["continue_on_failed_exfil"] = mode_rng.random() < 0.5
            continue
        if exhaust and t == "tap-001":
            s.update({"frequency": 2, "variance": 0, "start_step": 1, "repeat_kill_chain": False, "repeat_kill_chain_stages": True})
            for stage, opts in (s.get("kill_chain") or {}).items():
                if isinstance(opts, dict) and "probability" in opts:
                    opts["probability"] = 1
            prop = s["kill_chain"]["PROPAGATE"]
            nets = [n for n in prop["network_addresses"] if not n.startswith("192.168.220.")]
            rng.shuffle(nets)
            prop.update({"repeat_scan": True, "scan_attempts": 20, "network_addresses": nets[: rng.choice([2, 3])]})
            continue
        s["frequency"] = rng.choice([2, 3, 5])
        s["variance"] = rng.choice([0, 0, 1])
        s["start_step"] = rng.randint(1, 5)
        s["repeat_kill_chain"] = rng.random() < 0.4
        s["repeat_kill_chain_stages"] = rng.random() < 0.6
        for stage, opts in (s.get("kill_chain") or {}).items():
            if isinstance(opts, dict) and "probability" in opts:
                opts["probability"] = rng.choice([1, 1, 0.7, 0.4])
        if zero_stage is not None:
            # a quick, otherwise certain kill chain with one stage that can never be passed
            s.update({"frequency": 2, "variance": 0, "start_step": 1, "repeat_kill_chain": False, "repeat_kill_chain_stages": True})
            for stage, opts in (s.get("kill_chain") or {}).items():
                if isinstance(opts, dict) and "probability" in opts:
                    opts["probability"] = 0 if stage == zero_stage else 1
            continue
        if mode_rng is not None and mode_rng.random() < 0.25:
            # one stage that can never be passed
            stages = [k for k, o in (s.get("kill_chain") or {}).items() if isinstance(o, dict) and "probability" in o]
            if stages:
                s["kill_chain"][mode_rng.choice(sorted(stages))]["probability"] = 0
        if t == "tap-003" and rng.random() < 0.7:
            # several candidate start nodes: which one the seeded choice lands on must not depend on the process
            s["starting_nodes"] = rng.sample(["ST_PROJ-A-PRV-PC-1", "ST_PROJ-B-PRV-PC-2", "ST_PROJ-C-PRV-PC-3"], rng.randint(2, 3))
        if t == "tap-001":
            if rng.random() < 0.8:
                s["starting_nodes"] = rng.sample(["ST_PROJ-A-PRV-PC-1", "ST_PROJ-B-PRV-PC-2", "ST_PROJ-C-PRV-PC-3"], rng.randint(1, 3))
            prop = s["kill_chain"]["PROPAGATE"]
            prop["repeat_scan"] = rng.random() < 0.6
            prop["scan_attempts"] = rng.choice([1, 2, 4, 20])
            nets = list(prop["network_addresses"])
            if rng.random() < 0.5:
                nets = [n for n in nets if not n.startswith("192.168.220.")] or nets  # target subnet unknown: scans exhaust
            rng.shuffle(nets)
            prop["network_addresses"] = nets
            pay = s["kill_chain"]["PAYLOAD"]
            pay["exfiltrate"] = rng.random() < 0.7
            pay["corrupt"] = rng.random() < 0.7
            pay["continue_on_failed_exfil"] = rng.random() < 0.5


def load_shipped(name: str, max_episode_length: Optional[int] = None, seed: Optional[int] = None, io: Optional[Dict] = None, tap_variation: Optional[int] = None, tap_fast: bool = False, tap_zero_stage: Optional[str] = None) -> Dict:
    """Load a shipped scenario unmodified except io_settings, game.seed and (to keep runs short) max_episode_length."""
    import yaml

    with open(os.path.join(SHIPPED_DIR, name)) as f:
        cfg = yaml.safe_load(f)
    cfg["io_settings"] = dict(IO_OFF if io is None else io)
    if max_episode_length is not None:
        cfg.setdefault("game", {})["max_episode_length"] = max_episode_length
    if seed is not None:
        cfg["game"]["seed"] = seed
    if tap_variation is not None:
        vary_tap_settings(cfg, random.Random(tap_variation), mode_rng=random.Random(tap_variation * 7919 + 13), force_fast=tap_fast, zero_stage=tap_zero_stage)
    return cfg


# ------------------------------------------------------------------------------------------------------------------

SERVICE_TYPES = ["dns-client", "dns-server", "database-service", "web-server", "ftp-client", "ftp-server", "ntp-client", "ntp-server"]
APP_TYPES = ["web-browser", "database-client", "data-manipulation-bot", "ransomware-script", "dos-bot", "c2-beacon", "c2-server"]
HOST_SYSTEM_SOFTWARE = ["dns-client", "ntp-client", "web-browser", "nmap", "user-session-manager", "user-manager", "terminal", "host-arp", "icmp"]
PORT_NAMES = ["HTTP", "POSTGRES_SERVER", "DNS", "FTP", "NTP", "SSH", "ARP"]
FILE_TYPES = ["TXT", "DOC", "PDF", "JPEG", "PNG", "MP3", "ZIP", "DB", "UNKNOWN"]

DEFAULT_PROFILE: Dict[str, Any] = {
    "topologies": ["lan", "routed", "routed", "routed2", "routed2", "firewall", "firewall", "wireless", "firewall2", "dualgw"],
    "max_hosts_per_subnet": 3,
    "durations": [0, 1, 2, 3],
    "default_durations": [0, 1, 2, 3, 10],
    "use_defaults_block": 0.5,
    "tight_links": 0.25,
    "episode_len": (6, 30),
    "n_green": (0, 2),
    "n_red": (0, 2),
    "action_map_size": (12, 48),
    "missing_target_fraction": 0.12,
    "masking": 0.5,
    "flatten": 0.5,
    "obs": True,
    "nmne": 0.5,
    "random_acl_rules": (0, 6),
    "permit_all_rule": 0.8,
    "avoid": [],  # generator features switched off (known-finding reruns, see DESIGN.md 7)
    "frame_mbits": 0.005,
    "reward_sharing": 0.4,
    "io_on": 0.0,
    "users": 0.5,
    "initial_files": 0.6,
    "extra_nic": 0.2,
    "second_blue": 0.0,
}


class Gen:
    def __init__(self, rng: random.Random, profile: Dict[str, Any]):
        self.r = rng
        self.p = {**DEFAULT_PROFILE, **profile}
        self.avoid = set(self.p["avoid"])
        self.nodes: List[Dict] = []
        self.links: List[Dict] = []
        self.inv: Dict[str, Any] = {"hosts": {}, "switches": {}, "routers": {}, "firewalls": {}, "links": [], "subnets": {}, "agents": []}
        self._switch_next_port: Dict[str, int] = {}

    # -- helpers ----------------------------------------------------------------------------------------------------
    def chance(self, p: float) -> bool:
        return self.r.random() < p

    def pick_duration(self) -> int:
        return self.r.choice(self.p["durations"])

    def bandwidth(self) -> float:
        if self.chance(self.p["tight_links"]) and "tight_links" not in self.avoid:
            return round(self.p["frame_mbits"] * self.r.choice([1.0, 1.5, 2.0, 3.0, 6.0]), 6)
        return self.r.choice([100, 100, 100, 1000, 10000, 10])

    def add_switch(self, name: str, ports: int = 8) -> str:
        cfg = {"type": "switch", "hostname": name, "num_ports": ports, "start_up_duration": self.pick_duration(), "shut_down_duration": self.pick_duration()}
        self.nodes.append(cfg)
        self.inv["switches"][name] = {"num_ports": ports}
        self._switch_next_port[name] = 1
        return name

    def switch_port(self, sw: str) -> int:
        p = self._switch_next_port[sw]
        self._switch_next_port[sw] = p + 1
        return p

    def link(self, a: str, ap: int, b: str, bp: int, bandwidth: Optional[float] = None):
        bw = self.bandwidth() if bandwidth is None else bandwidth
        l = {"endpoint_a_hostname": a, "endpoint_a_port": ap, "endpoint_b_hostname": b, "endpoint_b_port": bp, "bandwidth": bw}
        if self.p.get("implicit_bandwidth") and bandwidth is None and self.chance(self.p["implicit_bandwidth"]):
            # a link that does not state its bandwidth gets the documented default of 100
            del l["bandwidth"]
            bw = 100
        self.links.append(l)
        self.inv["links"].append({"a": a, "a_port": ap, "b": b, "b_port": bp, "bandwidth": bw})

    # -- hosts ------------------------------------------------------------------------------------------------------
    def add_host(self, name: str, ip: str, mask: str, gateway: Optional[str], dns: Optional[str], switch: str, subnet: str, role: str = "any"):
        r = self.r
        ntype = r.choice(["computer", "computer", "server", "server", "printer"]) if role == "any" else role
        cfg: Dict[str, Any] = {
            "type": ntype,
            "hostname": name,
            "ip_address": ip,
            "subnet_mask": mask,
            "start_up_duration": self.pick_duration(),
            "shut_down_duration": self.pick_duration(),
        }
        if gateway:
            cfg["default_gateway"] = gateway
        if dns:
            cfg["dns_server"] = dns
        h = {"type": ntype, "ip": ip, "mask": mask, "gateway": gateway, "dns": dns, "services": {}, "applications": {}, "folders": {}, "users": [], "nics": {1: ip}, "subnet": subnet, "switch": switch, "start_up_duration": cfg["start_up_duration"], "shut_down_duration": cfg["shut_down_duration"]}
        if self.chance(0.3):
            cfg["node_scan_duration"] = r.choice(self.p["default_durations"])
            h["node_scan_duration"] = cfg["node_scan_duration"]
        if self.chance(self.p.get("initial_power_off", 0.0)):
            cfg["operating_state"] = "OFF"
            h["operating_state"] = "OFF"
        if self.chance(self.p.get("extra_nic", 0.0)):
            third = 200 + len(self.inv["hosts"])
            cfg["network_interfaces"] = {2: {"ip_address": f"172.16.{third}.2", "subnet_mask": "255.255.255.0"}}
            h["nics"][2] = f"172.16.{third}.2"
        if self.chance(self.p["initial_files"]):
            folders = []
            for fi in range(r.randint(1, 2)):
                fname = r.choice(["docs", "data", "tmp", "root"]) if fi == 0 else f"folder_{fi}"
                if fname in h["folders"]:
                    continue
                files = []
                for k in range(r.randint(0, 3)):
                    fn = f"file_{k}.{r.choice(['txt', 'db', 'pdf'])}"
                    fc = {"file_name": fn}
                    if self.chance(0.5):
                        fc["type"] = r.choice(FILE_TYPES)
                    if self.chance(0.3):
                        fc["size"] = r.choice([0, 1, 1024, 10**6])
                    files.append(fc)
                folders.append({"folder_name": fname, "files": files})
                h["folders"][fname] = [f["file_name"] for f in files]
            cfg["folders"] = folders
        if self.chance(self.p["users"]):
            users = []
            for k in range(r.randint(1, 2)):
                users.append({"username": f"user{k}", "password": r.choice(["pw", "secret", "admin"]), "is_admin": self.chance(0.4)})
            cfg["users"] = users
            h["users"] = copy.deepcopy(users)
        self.nodes.append(cfg)
        self.inv["hosts"][name] = h
        self.link(switch, self.switch_port(switch), name, 1)
        return cfg

    def add_software(self, host_cfgs: List[Dict]):
        """Distribute a service/application mix over the hosts, wired to each other's addresses."""
        r = self.r
        hosts = self.inv["hosts"]
        names = [c["hostname"] for c in host_cfgs]
        if not names:
            return
        ip_of = {n: hosts[n]["ip"] for n in names}
        servers = [n for n in names if hosts[n]["type"] == "server"] or names
        db_host = r.choice(servers)
        web_host = r.choice(servers)
        if self.p.get("web_rich") and web_host == db_host and len(names) > 1:
            # a web server that can reach its database (a host cannot connect to itself): 200 as well as 500 from /users
            web_host = r.choice([n for n in names if n != db_host])
        dns_host = r.choice(servers)
        ftp_host = r.choice(servers)
        ntp_host = r.choice(servers)
        db_pw = r.choice([None, None, "arcd", "pw1"])
        ftp_pw = None
        self.inv["roles"] = {"db": db_host, "web": web_host, "dns": dns_host, "ftp": ftp_host, "ntp": ntp_host, "db_password": db_pw}
        domain = "arcd.com"

        def svc(host, stype, options=None):
            cfg = next(c for c in host_cfgs if c["hostname"] == host)
            if stype in hosts[host]["services"]:
                return
            # services that are system software of every host are only declared when the feature is not avoided
            if stype in ("dns-client", "ntp-client") and "redeclare_system_software" in self.avoid:
                return
            if stype == "ftp-client" and hosts[host]["type"] == "computer" and "redeclare_system_software" in self.avoid:
                return
            entry: Dict[str, Any] = {"type": stype}
            opts = dict(options or {})
            if self.chance(0.3):
                opts["fixing_duration"] = r.choice(self.p["durations"])
            if opts:
                entry["options"] = opts
            cfg.setdefault("services", []).append(entry)
            hosts[host]["services"][stype] = copy.deepcopy(opts)

        def app(host, atype, options=None):
            cfg = next(c for c in host_cfgs if c["hostname"] == host)
            if atype in hosts[host]["applications"]:
                return
            if atype == "web-browser" and "redeclare_system_software" in self.avoid:
                return
            entry: Dict[str, Any] = {"type": atype}
            opts = dict(options or {})
            if self.chance(0.25):
                opts["fixing_duration"] = r.choice(self.p["durations"])
            if opts:
                entry["options"] = opts
            cfg.setdefault("applications", []).append(entry)
            hosts[host]["applications"][atype] = copy.deepcopy(opts)

        svc(dns_host, "dns-server", {"domain_mapping": {domain: ip_of[web_host]}})
        db_opts = {"backup_server_ip": ip_of[ftp_host]} if self.chance(0.8) else {}
        if db_pw:
            db_opts["db_password"] = db_pw
        svc(db_host, "database-service", db_opts)
        # the service creates its own folder and file: known to the inventory so that file/folder actions can name them
        hosts[db_host]["folders"].setdefault("database", [])
        if "database.db" not in hosts[db_host]["folders"]["database"]:
            hosts[db_host]["folders"]["database"].append("database.db")
        hosts[db_host]["service_created_folders"] = ["database"]
        if self.chance(0.8):
            svc(db_host, "ftp-client")
        svc(web_host, "web-server")
        if self.chance(0.8):
            app(web_host, "database-client", {"db_server_ip": ip_of[db_host], **({"server_password": db_pw} if db_pw else {})})
        svc(ftp_host, "ftp-server", {"server_password": ftp_pw} if ftp_pw else {})
        if self.chance(0.5):
            svc(ntp_host, "ntp-server")
        for n in names:
            hosts[n]["dns_expected"] = ip_of[dns_host]
            if self.p.get("node_dns") and self.chance(self.p["node_dns"]):
                # a node-level resolver address, which a dns-client that states its own dns_server does not use
                cfg_n = next(c for c in host_cfgs if c["hostname"] == n)
                cfg_n["dns_server"] = r.choice([ip_of[dns_host], ip_of[r.choice(names)]])
                hosts[n]["dns"] = cfg_n["dns_server"]
            if self.chance(0.35):
                svc(n, "dns-client", {"dns_server": ip_of[dns_host]} if self.chance(0.5) else {})
            if self.chance(0.25):
                svc(n, "ntp-client", {"ntp_server_ip": ip_of[ntp_host]})
            if self.chance(0.2):
                svc(n, "ftp-client")
            if self.chance(0.85 if self.p.get("web_rich") else 0.45):
                with_url = self.chance(0.8) or "browser_without_url" in self.avoid
                # web_rich (C10): pages that answer 200 without the database, 404, and /users (200 or 500 with the database's state)
                path = r.choice(["users/", "users/", "", "nopage"]) if self.p.get("web_rich") else "users/"
                app(n, "web-browser", {"target_url": f"http://{domain}/{path}"} if with_url else {})
            if self.chance(0.5):
                pw_ok = self.chance(0.8)
                o = {"db_server_ip": ip_of[db_host]}
                if db_pw:
                    o["server_password"] = db_pw if pw_ok else "wrong"
                app(n, "database-client", o)
            if self.chance(0.35):
                o = {"server_ip": ip_of[db_host], "payload": r.choice(["DELETE", "ENCRYPT", "SELECT"]), "port_scan_p_of_success": r.choice([0.0, 0.5, 0.8, 1.0]), "data_manipulation_p_of_success": r.choice([0.0, 0.5, 0.8, 1.0])}
                if db_pw and self.chance(0.7):
                    o["server_password"] = db_pw
                if self.chance(0.3):
                    o["repeat"] = self.chance(0.5)
                app(n, "data-manipulation-bot", o)
            if self.chance(0.2):
                o = {"server_ip": ip_of[db_host]}
                if db_pw and self.chance(0.7):
                    o["server_password"] = db_pw
                app(n, "ransomware-script", o)
            if self.chance(0.2):
                o = {"target_ip_address": ip_of[db_host], "port_scan_p_of_success": r.choice([0.0, 0.5, 1.0]), "dos_intensity": r.choice([0.1, 0.5, 1.0]), "max_sessions": r.choice([3, 10, 50]), "repeat": self.chance(0.5)}
                if self.chance(0.4):
                    o["payload"] = "SPOOF DATA"
                app(n, "dos-bot", o)
        if len(names) >= 2 and self.chance(0.3):
            c2s, c2b = r.sample(names, 2)
            app(c2s, "c2-server")
            app(c2b, "c2-beacon", {"c2_server_ip_address": ip_of[c2s], "keep_alive_frequency": r.choice([1, 2, 5])})
            self.inv["roles"]["c2_server"] = c2s
            self.inv["roles"]["c2_beacon"] = c2b
        # listen-on ports on a few software items
        for n in names:
            cfg = next(c for c in host_cfgs if c["hostname"] == n)
            for entry in cfg.get("services", []) + cfg.get("applications", []):
                if self.chance(0.08) and not entry["type"].startswith("c2") and "listen_on_ports" not in self.avoid:
                    entry.setdefault("options", {})["listen_on_ports"] = r.sample([80, 21, 53, 631], r.randint(1, 2))

    # -- topologies -------------------------------------------------------------------------------------------------
    def acl_rule(self, addr_pool: List[str]) -> Dict[str, Any]:
        r = self.r
        rule: Dict[str, Any] = {"action": r.choice(["PERMIT", "DENY"])}
        if self.chance(0.5):
            rule["protocol"] = r.choice(["TCP", "UDP", "ICMP"])
        if self.chance(0.4):
            rule["src_ip"] = r.choice(addr_pool)
            if self.chance(0.5):
                rule["src_wildcard_mask"] = r.choice(["0.0.0.0", "0.0.0.1", "0.0.0.255", "0.0.255.255"])
        if self.chance(0.4):
            rule["dst_ip"] = r.choice(addr_pool)
            if self.chance(0.5):
                rule["dst_wildcard_mask"] = r.choice(["0.0.0.0", "0.0.0.1", "0.0.0.255", "0.0.255.255"])
        if rule.get("protocol") in (None, "TCP", "UDP"):
            if self.chance(0.3):
                rule["src_port"] = r.choice(["HTTP", "POSTGRES_SERVER", "DNS", "FTP", "NTP", "SSH"])
            if self.chance(0.4):
                rule["dst_port"] = r.choice(["HTTP", "POSTGRES_SERVER", "DNS", "FTP", "NTP", "SSH"])
        return rule

    def router_acl(self, addr_pool: List[str]) -> Dict[int, Dict]:
        acl: Dict[int, Dict] = {22: {"action": "PERMIT", "src_port": "ARP", "dst_port": "ARP"}, 23: {"action": "PERMIT", "protocol": "ICMP"}}
        if self.chance(self.p["permit_all_rule"]):
            acl[21] = {"action": "PERMIT"}
        lo, hi = self.p["random_acl_rules"]
        for _ in range(self.r.randint(lo, hi)):
            acl[self.r.randint(0, 20)] = self.acl_rule(addr_pool)
        return dict(sorted(acl.items()))

    def subnet(self, idx: int) -> Tuple[str, str, List[str]]:
        """(gateway ip, mask, host ips) of generated subnet idx."""
        third = 10 * (idx + 1)
        mask = self.r.choice(["255.255.255.0", "255.255.255.0", "255.255.255.240"])
        gw = f"192.168.{third}.1"
        hosts = [f"192.168.{third}.{k}" for k in range(2, 12)]
        return gw, mask, hosts

    def build_lan(self):
        r = self.r
        gw, mask, ips = self.subnet(0)
        sw1 = self.add_switch("switch_1")
        sws = [sw1]
        if self.chance(0.4):
            sw2 = self.add_switch("switch_2")
            self.link(sw1, 8, sw2, 8)
            sws.append(sw2)
            if self.p.get("l2_loop") and self.chance(self.p["l2_loop"]):
                # a redundant uplink: a layer-2 loop (flooded frames circulate until their TTL runs out)
                self.link(sw1, 7, sw2, 7)
                self.inv["l2_loop"] = True
        n = r.randint(2, max(2, self.p["max_hosts_per_subnet"] + 1))
        cfgs = []
        for i in range(n):
            cfgs.append(self.add_host(f"host_{i}", ips[i], mask, None, None, r.choice(sws), "lan"))
        self.inv["subnets"]["lan"] = {"mask": mask, "gateway": None}
        return cfgs

    def _routed_subnets(self, k: int, attach) -> List[Dict]:
        cfgs = []
        for s in range(k):
            gw, mask, ips = self.subnet(s)
            sw = self.add_switch(f"switch_{s + 1}")
            attach(s, gw, mask, sw)
            n = self.r.randint(1, self.p["max_hosts_per_subnet"])
            for i in range(n):
                cfgs.append(self.add_host(f"host_{s}_{i}", ips[i], mask, gw, None, sw, f"net{s}"))
            self.inv["subnets"][f"net{s}"] = {"mask": mask, "gateway": gw}
        return cfgs

    def build_routed(self):
        r = self.r
        k = r.randint(2, 3)
        ports: Dict[int, Dict] = {}
        rname = "router_1"

        def attach(s, gw, mask, sw):
            ports[s + 1] = {"ip_address": gw, "subnet_mask": mask}
            self.link(rname, s + 1, sw, 8)

        cfgs = self._routed_subnets(k, attach)
        pool = [self.inv["hosts"][c["hostname"]]["ip"] for c in cfgs]
        acl = self.router_acl(pool)
        rcfg = {"type": "router", "hostname": rname, "num_ports": 5, "ports": ports, "acl": acl, "start_up_duration": self.pick_duration(), "shut_down_duration": self.pick_duration()}
        self.nodes.insert(0, rcfg)
        self.inv["routers"][rname] = {"ports": copy.deepcopy(ports), "acl": copy.deepcopy(acl), "routes": [], "default_route": None, "num_ports": 5}
        return cfgs

    def build_routed2(self):
        """Two routers in line: net0 - r1 - (transit /30) - r2 - net1 [, net2 on r2]."""
        r = self.r
        transit_a, transit_b, tmask = "10.0.0.1", "10.0.0.2", "255.255.255.252"
        p1: Dict[int, Dict] = {2: {"ip_address": transit_a, "subnet_mask": tmask}}
        p2: Dict[int, Dict] = {2: {"ip_address": transit_b, "subnet_mask": tmask}}
        k = r.randint(2, 3)
        subnet_router = {}

        def attach(s, gw, mask, sw):
            if s == 0:
                p1[1] = {"ip_address": gw, "subnet_mask": mask}
                self.link("router_1", 1, sw, 8)
                subnet_router[s] = 1
            else:
                port = 1 if s == 1 else 3
                p2[port] = {"ip_address": gw, "subnet_mask": mask}
                self.link("router_2", port, sw, 8)
                subnet_router[s] = 2

        cfgs = self._routed_subnets(k, attach)
        self.link("router_1", 2, "router_2", 2)
        pool = [self.inv["hosts"][c["hostname"]]["ip"] for c in cfgs]
        routes1, routes2 = [], []
        default1 = default2 = None
        style = r.choice(["static", "default", "mixed", "overlap"])
        if "routing_loop" in self.avoid and style in ("default", "mixed"):
            style = "static"  # default routes pointing at each other forward unroutable destinations in a loop
        for s in range(k):
            third = 10 * (s + 1)
            mask = self.inv["subnets"][f"net{s}"]["mask"]
            if subnet_router[s] == 2:
                if style in ("static", "mixed", "overlap"):
                    routes1.append({"address": f"192.168.{third}.0", "subnet_mask": mask, "next_hop_ip_address": transit_b, "metric": r.choice([0, 1, 5])})
            else:
                if style in ("static", "overlap"):
                    routes2.append({"address": f"192.168.{third}.0", "subnet_mask": mask, "next_hop_ip_address": transit_a, "metric": r.choice([0, 1, 5])})
        if style == "default":
            default1 = {"next_hop_ip_address": transit_b}
            default2 = {"next_hop_ip_address": transit_a}
        if style == "mixed":
            default2 = {"next_hop_ip_address": transit_a}
        if style == "overlap":
            # a shorter, wrong-way prefix with a better metric and an equal-prefix worse-metric duplicate: must lose
            routes1.append({"address": "192.168.0.0", "subnet_mask": "255.255.0.0", "next_hop_ip_address": "10.0.0.3", "metric": 0})
            for rt in list(routes1):
                if rt["subnet_mask"] != "255.255.0.0" and self.chance(0.5):
                    routes1.append({**rt, "next_hop_ip_address": "10.0.0.3", "metric": rt["metric"] + 3})
        for name, ports, routes, default in (("router_1", p1, routes1, default1), ("router_2", p2, routes2, default2)):
            acl = self.router_acl(pool)
            cfg = {"type": "router", "hostname": name, "num_ports": 5, "ports": ports, "acl": acl, "start_up_duration": self.pick_duration(), "shut_down_duration": self.pick_duration()}
            if routes:
                cfg["routes"] = routes
            if default:
                cfg["default_route"] = default
            self.nodes.insert(0, cfg)
            self.inv["routers"][name] = {"ports": copy.deepcopy(ports), "acl": copy.deepcopy(acl), "routes": copy.deepcopy(routes), "default_route": copy.deepcopy(default), "num_ports": 5}
        return cfgs

    def build_dualgw(self):
        """Two subnets joined by TWO routers in parallel (.1 and .254 on both); every host picks one of them as its
        default gateway, so forward and return paths may use different routers."""
        r = self.r
        p1: Dict[int, Dict] = {}
        p2: Dict[int, Dict] = {}
        cfgs = []
        mask = "255.255.255.0"
        for s in range(2):
            third = 10 * (s + 1)
            gw1, gw2 = f"192.168.{third}.1", f"192.168.{third}.254"
            sw = self.add_switch(f"switch_{s + 1}")
            p1[s + 1] = {"ip_address": gw1, "subnet_mask": mask}
            p2[s + 1] = {"ip_address": gw2, "subnet_mask": mask}
            self.link("router_1", s + 1, sw, 8)
            self.link("router_2", s + 1, sw, 7)
            n = r.randint(1, self.p["max_hosts_per_subnet"])
            for i in range(n):
                cfgs.append(self.add_host(f"host_{s}_{i}", f"192.168.{third}.{i + 2}", mask, r.choice([gw1, gw2]), None, sw, f"net{s}"))
            self.inv["subnets"][f"net{s}"] = {"mask": mask, "gateway": gw1}
        pool = [self.inv["hosts"][c["hostname"]]["ip"] for c in cfgs]
        for name, ports in (("router_1", p1), ("router_2", p2)):
            acl = self.router_acl(pool)
            cfg = {"type": "router", "hostname": name, "num_ports": 5, "ports": ports, "acl": acl, "start_up_duration": self.pick_duration(), "shut_down_duration": self.pick_duration()}
            self.nodes.insert(0, cfg)
            self.inv["routers"][name] = {"ports": copy.deepcopy(ports), "acl": copy.deepcopy(acl), "routes": [], "default_route": None, "num_ports": 5}
        return cfgs

    def build_wireless(self):
        """net0 - wireless router 1 ~~~ (air, WIFI_2_4 or WIFI_5) ~~~ wireless router 2 - net1."""
        r = self.r
        freq = r.choice(["WIFI_2_4", "WIFI_2_4", "WIFI_5"])
        wap = {1: "10.1.0.1", 2: "10.1.0.2"}
        cfg_by_router: Dict[int, Dict] = {}

        def attach(s, gw, mask, sw):
            name = f"wrouter_{s + 1}"
            cfg_by_router[s] = {"type": "wireless-router", "hostname": name, "router_interface": {"ip_address": gw, "subnet_mask": mask}, "wireless_access_point": {"ip_address": wap[s + 1], "subnet_mask": "255.255.255.0", "frequency": freq}, "start_up_duration": self.pick_duration(), "shut_down_duration": self.pick_duration()}
            self.link(name, 2, sw, 8)

        cfgs = self._routed_subnets(2, attach)
        pool = [self.inv["hosts"][c["hostname"]]["ip"] for c in cfgs]
        for s in (0, 1):
            other = 1 - s
            third = 10 * (other + 1)
            cfg = cfg_by_router[s]
            acl = self.router_acl(pool)
            cfg["acl"] = acl
            cfg["routes"] = [{"address": f"192.168.{third}.0", "subnet_mask": self.inv["subnets"][f"net{other}"]["mask"], "next_hop_ip_address": wap[other + 1], "metric": 0}]
            self.nodes.insert(0, cfg)
            self.inv["routers"][cfg["hostname"]] = {"ports": {1: dict(cfg["wireless_access_point"]), 2: dict(cfg["router_interface"])}, "acl": copy.deepcopy(acl), "routes": copy.deepcopy(cfg["routes"]), "default_route": None, "num_ports": 2, "wireless": True}
        if self.chance(0.75) and "tight_links" not in self.avoid:
            cap = round(self.p["frame_mbits"] * r.choice([1.5, 2.0, 3.0, 4.0, 6.0, 12.0]), 6)
            self.airspace = {"frequency_max_capacity_mbps": {freq: cap}}
            self.inv["airspace"] = {freq: cap}
        return cfgs

    def build_firewall(self):
        """internal net0 | dmz net1 | external net2 around one firewall (directly attached switches)."""
        r = self.r
        zone_port = {0: ("internal_port", 2), 1: ("dmz_port", 3), 2: ("external_port", 1)}
        ports: Dict[str, Dict] = {}

        def attach(s, gw, mask, sw):
            key, num = zone_port[s]
            ports[key] = {"ip_address": gw, "subnet_mask": mask}
            self.link("firewall_1", num, sw, 8)

        cfgs = self._routed_subnets(3, attach)
        pool = [self.inv["hosts"][c["hostname"]]["ip"] for c in cfgs]
        acl = {}
        for lst in ("internal_inbound_acl", "internal_outbound_acl", "dmz_inbound_acl", "dmz_outbound_acl", "external_inbound_acl", "external_outbound_acl"):
            acl[lst] = self.router_acl(pool)
        cfg = {"type": "firewall", "hostname": "firewall_1", "ports": ports, "acl": acl, "start_up_duration": self.pick_duration(), "shut_down_duration": self.pick_duration()}
        self.nodes.insert(0, cfg)
        self.inv["firewalls"]["firewall_1"] = {"ports": copy.deepcopy(ports), "acl": copy.deepcopy(acl), "routes": [], "default_route": None}
        return cfgs

    def build_firewall2(self):
        """Firewall with DMZ (net1) and external (net2) switches as in build_firewall; its internal port leads to a
        transit switch with no hosts and an inner router, behind which the internal hosts live (net3): internal
        destinations the firewall reaches by a route, not on its internal port's own subnet."""
        r = self.r
        zone_port = {1: ("dmz_port", 3), 2: ("external_port", 1)}
        gw0, mask0, inner_ip = "192.168.10.1", "255.255.255.0", "192.168.10.12"
        ports: Dict[str, Dict] = {"internal_port": {"ip_address": gw0, "subnet_mask": mask0}}
        cfgs = []
        sw0 = self.add_switch("switch_1")
        self.link("firewall_1", 2, sw0, 8)
        self.inv["subnets"]["net0"] = {"mask": mask0, "gateway": gw0}
        for s in (1, 2):
            gw, mask, ips = self.subnet(s)
            sw = self.add_switch(f"switch_{s + 1}")
            key, num = zone_port[s]
            ports[key] = {"ip_address": gw, "subnet_mask": mask}
            self.link("firewall_1", num, sw, 8)
            for i in range(r.randint(1, self.p["max_hosts_per_subnet"])):
                cfgs.append(self.add_host(f"host_{s}_{i}", ips[i], mask, gw, None, sw, f"net{s}"))
            self.inv["subnets"][f"net{s}"] = {"mask": mask, "gateway": gw}
        gw3, mask3 = "192.168.40.1", "255.255.255.0"
        sw3 = self.add_switch("switch_4")
        self.link("router_in", 1, sw0, 6)
        self.link("router_in", 2, sw3, 8)
        for i in range(r.randint(1, self.p["max_hosts_per_subnet"])):
            cfgs.append(self.add_host(f"host_3_{i}", f"192.168.40.{i + 2}", mask3, gw3, None, sw3, "net3"))
        self.inv["subnets"]["net3"] = {"mask": mask3, "gateway": gw3}
        pool = [self.inv["hosts"][c["hostname"]]["ip"] for c in cfgs]
        acl = {}
        for lst in ("internal_inbound_acl", "internal_outbound_acl", "dmz_inbound_acl", "dmz_outbound_acl", "external_inbound_acl", "external_outbound_acl"):
            acl[lst] = self.router_acl(pool)
        routes = [{"address": "192.168.40.0", "subnet_mask": mask3, "next_hop_ip_address": inner_ip, "metric": 0}]
        cfg = {"type": "firewall", "hostname": "firewall_1", "ports": ports, "acl": acl, "routes": routes, "start_up_duration": self.pick_duration(), "shut_down_duration": self.pick_duration()}
        self.inv["firewalls"]["firewall_1"] = {"ports": copy.deepcopy(ports), "acl": copy.deepcopy(acl), "routes": copy.deepcopy(routes), "default_route": None}
        rports = {1: {"ip_address": inner_ip, "subnet_mask": mask0}, 2: {"ip_address": gw3, "subnet_mask": mask3}}
        racl = self.router_acl(pool)
        default = {"next_hop_ip_address": gw0}
        rcfg = {"type": "router", "hostname": "router_in", "num_ports": 5, "ports": rports, "acl": racl, "default_route": default, "start_up_duration": self.pick_duration(), "shut_down_duration": self.pick_duration()}
        self.inv["routers"]["router_in"] = {"ports": copy.deepcopy(rports), "acl": copy.deepcopy(racl), "routes": [], "default_route": copy.deepcopy(default), "num_ports": 5}
        self.nodes.insert(0, rcfg)
        self.nodes.insert(0, cfg)
        return cfgs

    # -- agents -----------------------------------------------------------------------------------------------------
    def candidate_actions(self) -> List[Dict]:
        """Every registered action type whose schema can be filled from the inventory x existing targets."""
        r = self.r
        acts: List[Dict] = []
        hosts = self.inv["hosts"]

        def add(action, **options):
            acts.append({"action": action, "options": options})

        for hn, h in hosts.items():
            for a in ("node-os-scan", "node-shutdown", "node-startup", "node-reset"):
                add(a, node_name=hn)
            svc_names = list(h["services"]) + ["dns-client", "ntp-client", "terminal"]
            for s in dict.fromkeys(svc_names):
                for verb in ("scan", "stop", "start", "pause", "resume", "restart", "disable", "enable", "fix"):
                    add(f"node-service-{verb}", node_name=hn, service_name=s)
            app_names = list(h["applications"]) + ["web-browser", "nmap"]
            if self.p.get("app_lifecycle_cluster") and self.chance(self.p["app_lifecycle_cluster"]):
                # the whole life cycle of an application that is not there at the start: installed at run time by
                # node-application-install, then scanned / closed / fixed / executed / removed
                absent = [x for x in ("database-client", "ransomware-script", "dos-bot", "data-manipulation-bot") if x not in app_names]
                if absent:
                    app_names.append(r.choice(absent))
            for ap in dict.fromkeys(app_names):
                for verb in ("execute", "scan", "close", "fix"):
                    add(f"node-application-{verb}", node_name=hn, application_name=ap)
                add("node-application-remove", node_name=hn, application_name=ap)
            for ap in ("database-client", "web-browser", "ransomware-script", "dos-bot", "data-manipulation-bot", "c2-beacon", "c2-server"):
                add("node-application-install", node_name=hn, application_name=ap)
            folders = dict(h["folders"])
            folders.setdefault("new_folder", [])
            for fo, files in folders.items():
                for verb in ("scan", "checkhash", "repair", "restore", "create"):
                    add(f"node-folder-{verb}", node_name=hn, folder_name=fo)
                for fi in list(files) + ["new_file.txt"]:
                    for verb in ("create", "scan", "delete", "restore", "corrupt", "access", "checkhash", "repair"):
                        add(f"node-file-{verb}", node_name=hn, folder_name=fo, file_name=fi)
            for nic in h["nics"]:
                add("host-nic-enable", node_name=hn, nic_num=nic)
                add("host-nic-disable", node_name=hn, nic_num=nic)
            add("node-account-add-user", node_name=hn, username=r.choice(["newuser", "user0", "admin"]), password="pw", is_admin=self.chance(0.3))
            for u in [u["username"] for u in h["users"]] + ["admin"]:
                add("node-account-disable-user", node_name=hn, username=u)
                pw = next((x["password"] for x in h["users"] if x["username"] == u), "admin")
                add("node-account-change-password", node_name=hn, username=u, current_password=pw if self.chance(0.7) else "bad", new_password="changed")
                add("node-send-local-command", node_name=hn, username=u, password=pw if self.chance(0.7) else "bad", command=["file_system", "create", "folder", "cmd_folder"])
            others = [o for o in hosts if o != hn]
            if others:
                o = r.choice(others)
                oh = hosts[o]
                ou = r.choice([u for u in oh["users"]] + [{"username": "admin", "password": "admin"}])
                add("node-session-remote-login", node_name=hn, username=ou["username"], password=ou["password"] if self.chance(0.8) else "bad", remote_ip=oh["ip"])
                add("node-send-remote-command", node_name=hn, remote_ip=oh["ip"], command=["file_system", "create", "folder", "remote_folder"])
                add("node-session-remote-logoff", node_name=hn, remote_ip=oh["ip"])
                add("node-nmap-ping-scan", source_node=hn, target_ip_address=oh["ip"])
                add("node-nmap-port-scan", source_node=hn, target_ip_address=oh["ip"], target_port=r.choice([80, 5432, 21]), target_protocol="tcp")
                if "nmap_subnet_scan" not in self.avoid:
                    net = oh["ip"].rsplit(".", 1)[0] + ".0/28"
                    add("node-network-service-recon", source_node=hn, target_ip_address=net, target_port=r.choice([80, 5432]), target_protocol="tcp")
                    add("node-nmap-ping-scan", source_node=hn, target_ip_address=net)
            if "database-client" in h["applications"]:
                add("configure-database-client", node_name=hn, server_ip_address=self.inv["hosts"][self.inv["roles"]["db"]]["ip"], server_password=self.inv["roles"].get("db_password") or "x")
            if "ransomware-script" in h["applications"]:
                add("configure-ransomware-script", node_name=hn, server_ip_address=self.inv["hosts"][self.inv["roles"]["db"]]["ip"], payload="ENCRYPT")
            if "dos-bot" in h["applications"]:
                add("configure-dos-bot", node_name=hn, target_ip_address=self.inv["hosts"][self.inv["roles"]["db"]]["ip"], dos_intensity=0.5, max_sessions=5)
            if "c2-beacon" in h["applications"]:
                add("configure-c2-beacon", node_name=hn, c2_server_ip_address=hosts[self.inv["roles"]["c2_server"]]["ip"], keep_alive_frequency=2)
            if "c2-server" in h["applications"]:
                add("c2-server-ransomware-launch", node_name=hn)
                add("c2-server-ransomware-configure", node_name=hn, server_ip_address=self.inv["hosts"][self.inv["roles"]["db"]]["ip"], payload="ENCRYPT")
                add("c2-server-terminal-command", node_name=hn, commands=[["file_system", "create", "folder", "c2_folder"]], ip_address=None, username="admin", password="admin")
                add("c2-server-data-exfiltrate", node_name=hn, target_file_name="database.db", target_folder_name="database", exfiltration_folder_name="exfil", target_ip_address=self.inv["hosts"][self.inv["roles"]["db"]]["ip"], username="admin", password="admin")
        addr = [h["ip"] for h in hosts.values()]
        for rn, rt in self.inv["routers"].items():
            for a in ("node-shutdown", "node-startup", "node-reset"):
                add(a, node_name=rn)
            for p in rt["ports"]:
                add("network-port-enable", target_nodename=rn, port_num=p)
                add("network-port-disable", target_nodename=rn, port_num=p)
            for _ in range(4):
                add("router-acl-add-rule", **self.acl_action_options(rn, addr))
                add("router-acl-remove-rule", target_router=rn, position=r.randint(0, 23))
        for fn in self.inv["firewalls"]:
            for a in ("node-shutdown", "node-startup", "node-reset"):
                add(a, node_name=fn)
            for p in (1, 2, 3):
                add("network-port-enable", target_nodename=fn, port_num=p)
                add("network-port-disable", target_nodename=fn, port_num=p)
            for _ in range(4):
                o = self.acl_action_options(fn, addr)
                o["target_firewall_nodename"] = o.pop("target_router")
                o["firewall_port_name"] = r.choice(["internal", "dmz", "external"])
                o["firewall_port_direction"] = r.choice(["inbound", "outbound"])
                add("firewall-acl-add-rule", **o)
                add("firewall-acl-remove-rule", target_firewall_nodename=fn, firewall_port_name=o["firewall_port_name"], firewall_port_direction=o["firewall_port_direction"], position=r.randint(0, 23))
        for sn, sw in self.inv["switches"].items():
            for a in ("node-shutdown", "node-startup", "node-reset"):
                add(a, node_name=sn)
            for p in (1, 8):
                add("network-port-enable", target_nodename=sn, port_num=p)
                add("network-port-disable", target_nodename=sn, port_num=p)
        return acts

    def acl_action_options(self, router: str, addr: List[str]) -> Dict[str, Any]:
        r = self.r
        # the observation can only encode addresses of its ip_list: rules added by actions use host addresses (which
        # the generator puts in ip_list) unless the feature is not avoided
        pool = addr if "acl_ip_outside_obs_list" in self.avoid else addr + ["172.16.0.9"]
        maxpos = 23 if "acl_position_24" in self.avoid else 24
        return {
            "target_router": router,
            "position": r.randint(0, maxpos),
            "permission": r.choice(["PERMIT", "DENY"]),
            "src_ip": r.choice(pool + ["ALL"]),
            "src_wildcard": r.choice(["NONE", "0.0.0.1", "0.0.0.255"]),
            "src_port": r.choice(["ALL", "HTTP", "POSTGRES_SERVER", "DNS"]),
            "dst_ip": r.choice(pool + ["ALL"]),
            "dst_wildcard": r.choice(["NONE", "0.0.0.1", "0.0.0.255"]),
            "dst_port": r.choice(["ALL", "HTTP", "POSTGRES_SERVER", "DNS"]),
            "protocol_name": r.choice(["ALL", "tcp", "udp", "icmp"]),
        }

    def mutate_missing(self, act: Dict) -> Dict:
        """Replace one component-name field by a name that does not exist (well-formed: the properties quantify over it)."""
        a = copy.deepcopy(act)
        keys = [k for k in ("node_name", "service_name", "application_name", "folder_name", "file_name", "nic_num", "target_nodename", "port_num", "source_node", "target_router", "target_firewall_nodename") if k in a["options"]]
        if not keys:
            return a
        k = self.r.choice(keys)
        a["options"][k] = 9 if k in ("nic_num", "port_num") else "no_such_" + k
        a["_missing"] = k
        return a

    def blue_agent(self, ref: str = "defender") -> Dict:
        r = self.r
        cands = self.candidate_actions()
        lo, hi = self.p["action_map_size"]
        n = min(len(cands), r.randint(lo, hi))
        chosen = r.sample(cands, n)
        out = [{"action": "do-nothing", "options": {}}]
        for a in chosen:
            if self.chance(self.p["missing_target_fraction"]):
                a = self.mutate_missing(a)
            out.append(a)
        action_map = {i: {"action": a["action"], "options": a["options"]} for i, a in enumerate(out)}
        if self.chance(0.3) and "unordered_action_map_keys" not in self.avoid:
            # a YAML mapping may list its keys in any order (the schema only asks that 0..N-1 are all present)
            items = list(action_map.items())
            r.shuffle(items)
            action_map = dict(items)
        agent: Dict[str, Any] = {
            "ref": ref,
            "team": "BLUE",
            "type": "proxy-agent",
            "action_space": {"action_map": action_map},
            "reward_function": {"reward_components": self.reward_components(ref)},
            "agent_settings": {"flatten_obs": self.chance(self.p["flatten"]), "action_masking": self.chance(self.p["masking"])},
        }
        if self.p["obs"]:
            agent["observation_space"] = self.observation_space()
        self.inv["agents"].append({"ref": ref, "type": "proxy-agent", "team": "BLUE", "missing": {i: a.get("_missing") for i, a in enumerate(out) if a.get("_missing")}})
        return agent

    def observation_space(self) -> Dict:
        r = self.r
        hosts = self.inv["hosts"]
        num_services = r.randint(0, 3)
        num_applications = r.randint(0, 3)
        num_folders = r.randint(0, 2)
        num_files = r.randint(0, 3)
        num_nics = r.randint(0, 2)
        host_obs = []
        must = r.choice(list(hosts))
        for hn, h in hosts.items():
            if hn != must and not self.chance(0.8):
                continue
            ho: Dict[str, Any] = {"hostname": hn}
            sv = list(h["services"]) + (["dns-client", "terminal"] if self.chance(0.3) else [])
            sv = list(dict.fromkeys(sv))
            r.shuffle(sv)
            if sv and self.chance(0.8):
                ho["services"] = [{"service_name": s} for s in sv[: r.randint(0, num_services + 1)]]
            ap = list(h["applications"]) + (["web-browser", "nmap", "not-installed-app"] if self.chance(0.3) else [])
            ap = list(dict.fromkeys(ap))
            r.shuffle(ap)
            if ap and self.chance(0.8):
                ho["applications"] = [{"application_name": a} for a in ap[: r.randint(0, num_applications + 1)]]
            fo = []
            fs = dict(h["folders"])
            if self.chance(0.3):
                fs["new_folder"] = ["new_file.txt"]
            for fname, files in list(fs.items())[: num_folders + 1]:
                f = {"folder_name": fname}
                if files and self.chance(0.8):
                    f["files"] = [{"file_name": x} for x in files[: r.randint(0, num_files + 1)]]
                fo.append(f)
            if fo:
                ho["folders"] = fo
            host_obs.append(ho)
        addr = [h["ip"] for h in hosts.values()]
        nodes_opts: Dict[str, Any] = {
            "hosts": host_obs,
            "num_services": num_services,
            "num_applications": num_applications,
            "num_folders": num_folders,
            "num_files": num_files,
            "num_nics": num_nics,
            "include_num_access": self.chance(0.5),
            "include_nmne": self.chance(0.5),
            "file_system_requires_scan": self.chance(0.5),
            "services_requires_scan": self.chance(0.5),
            "applications_requires_scan": self.chance(0.5),
            "include_users": self.chance(0.6),
        }
        if self.chance(0.6):
            nodes_opts["monitored_traffic"] = r.choice([{"icmp": ["NONE"], "tcp": ["HTTP", "POSTGRES_SERVER"]}, {"icmp": ["NONE"]}, {"tcp": ["DNS", "FTP"], "udp": ["NTP", "ARP"]}])
        acl_common = {
            "num_ports": r.randint(0, 4),
            "ip_list": addr,
            "wildcard_list": r.choice([["0.0.0.1"], ["0.0.0.255", "0.0.0.1"], ["0.0.0.0", "0.0.0.1", "0.0.0.255", "0.0.255.255"]]),
            "port_list": r.choice([["HTTP", "POSTGRES_SERVER"], ["HTTP", "POSTGRES_SERVER", "DNS", "FTP", "NTP", "SSH", "ARP"]]),
            "protocol_list": r.choice([["ICMP", "TCP", "UDP"], ["TCP", "UDP"]]),
            "num_rules": r.choice([1, 5, 10, 24]),
        }
        # scenario-declared ACL rules name host addresses (all in ip_list) - see router_acl()
        if self.inv["routers"] and self.chance(0.8):
            routers_obs = []
            for rn, rt in self.inv["routers"].items():
                ro: Dict[str, Any] = {"hostname": rn}
                if self.chance(0.35):
                    # explicit port list, deliberately shorter or longer than num_ports now and then
                    ro["ports"] = [{"port_id": k} for k in r.sample(range(1, rt.get("num_ports", 5) + 2), r.randint(0, min(4, rt.get("num_ports", 5))))]
                routers_obs.append(ro)
            nodes_opts["routers"] = routers_obs
            nodes_opts.update(acl_common)
        if self.inv["firewalls"] and self.chance(0.8):
            nodes_opts["firewalls"] = [{"hostname": fn} for fn in self.inv["firewalls"]]
            nodes_opts.update(acl_common)
        comps = [{"type": "nodes", "label": "NODES", "options": nodes_opts}]
        if self.chance(0.7):
            refs = []
            for l in self.inv["links"]:
                if self.chance(0.7):
                    if self.chance(0.5):
                        refs.append(f"{l['a']}:eth-{l['a_port']}<->{l['b']}:eth-{l['b_port']}")
                    else:
                        refs.append(f"{l['b']}:eth-{l['b_port']}<->{l['a']}:eth-{l['a_port']}")
            if self.chance(0.2):
                refs.append("nowhere:eth-1<->nothing:eth-2")
            if refs:
                comps.append({"type": "links", "label": "LINKS", "options": {"link_references": refs}})
        if self.chance(0.5):
            comps.append({"type": "none", "label": "ICS", "options": {}})
        return {"type": "custom", "options": {"components": comps}}

    def reward_components(self, ref: str) -> List[Dict]:
        r = self.r
        hosts = self.inv["hosts"]
        roles = self.inv.get("roles", {})
        out = []
        kinds = ["dummy", "database-file-integrity", "web-server-404-penalty", "webpage-unavailable-penalty", "green-admin-database-unreachable-penalty", "action-penalty"]
        for _ in range(r.randint(1, 5) if self.p.get("reward_rich") else r.randint(0, 4)):
            k = r.choice(kinds)
            w = r.choice([1.0, 0.5, 0.25, 0.0, -0.5, 2.0, 0.33])
            hn = r.choice(list(hosts))
            if k == "dummy":
                out.append({"type": k, "weight": w})
            elif k == "database-file-integrity":
                out.append({"type": k, "weight": w, "options": {"node_hostname": roles.get("db", hn), "folder_name": "database", "file_name": "database.db"}})
            elif k == "web-server-404-penalty":
                out.append({"type": k, "weight": w, "options": {"node_hostname": roles.get("web", hn), "service_name": "web-server", "sticky": self.chance(0.5)}})
            elif k == "webpage-unavailable-penalty":
                out.append({"type": k, "weight": w, "options": {"node_hostname": hn, "sticky": self.chance(0.5)}})
            elif k == "green-admin-database-unreachable-penalty":
                out.append({"type": k, "weight": w, "options": {"node_hostname": hn, "sticky": self.chance(0.5)}})
            elif k == "action-penalty":
                out.append({"type": k, "weight": w, "options": {"action_penalty": r.choice([-1.0, -0.1]), "do_nothing_penalty": r.choice([0.0, 0.05])}})
        return out

    def green_agent(self, ref: str) -> Dict:
        r = self.r
        hosts = self.inv["hosts"]
        hn = r.choice(list(hosts))
        if self.p.get("web_rich"):
            browsing = [x for x in hosts if hosts[x]["applications"].get("web-browser", {}).get("target_url")]
            if browsing and self.chance(0.8):
                hn = r.choice(browsing)
        h = hosts[hn]
        acts = [{"action": "do-nothing", "options": {}}]
        apps = [a for a in h["applications"] if a in ("web-browser", "database-client")] or ["web-browser"]
        if "browser_without_url" in self.avoid:
            apps = [a for a in apps if a != "web-browser" or h["applications"].get("web-browser", {}).get("target_url")]
        for a in apps:
            acts.append({"action": "node-application-execute", "options": {"node_name": hn, "application_name": a}})
        if self.chance(0.3):
            acts.append({"action": "node-application-execute", "options": {"node_name": hn, "application_name": "not-installed-app"}})
        n = len(acts)
        weights = [r.choice([0, 1, 2, 3]) for _ in range(n)]
        if sum(weights) == 0:
            weights[0] = 1
        probs = [w / sum(weights) for w in weights]
        table = {i: p for i, p in enumerate(probs)}
        if self.chance(0.3) and "unordered_probability_keys" not in self.avoid:
            # a YAML mapping may list its keys in any order
            items = list(table.items())
            r.shuffle(items)
            table = dict(items)
        agent = {
            "ref": ref,
            "team": "GREEN",
            "type": "probabilistic-agent",
            "agent_settings": {"action_probabilities": table},
            "action_space": {"action_map": {i: a for i, a in enumerate(acts)}},
            "reward_function": {"reward_components": self.reward_components(ref)},
        }
        self.inv["agents"].append({"ref": ref, "type": "probabilistic-agent", "team": "GREEN", "node": hn, "probs": probs, "actions": copy.deepcopy(acts)})
        return agent

    def red_agent(self, ref: str) -> Optional[Dict]:
        r = self.r
        hosts = self.inv["hosts"]
        kind = r.choice(["periodic-agent", "red-database-corrupting-agent"])
        target = "data-manipulation-bot" if kind == "red-database-corrupting-agent" else r.choice(["data-manipulation-bot", "ransomware-script", "dos-bot", "web-browser", "database-client"])
        with_app = [hn for hn, h in hosts.items() if target in h["applications"]]
        starts = with_app or [r.choice(list(hosts))]
        if self.chance(0.2):
            starts = starts + [r.choice(list(hosts))]
        freq = r.randint(1, 8)
        settings = {
            "possible_start_nodes": starts,
            "target_application": target,
            "start_step": r.randint(0, 10),
            "frequency": freq,
            "variance": r.randint(0, freq - 1),
        }
        if kind == "periodic-agent":
            settings["start_variance"] = r.randint(0, 3)
        if self.chance(0.4) and (kind == "periodic-agent" or "max_executions_on_db_agent" not in self.avoid):
            settings["max_executions"] = r.randint(0, 3)
        agent = {"ref": ref, "team": "RED", "type": kind, "agent_settings": settings}
        if self.chance(0.5):
            agent["reward_function"] = {"reward_components": self.reward_components(ref)}
        self.inv["agents"].append({"ref": ref, "type": kind, "team": "RED", "settings": copy.deepcopy(settings)})
        return agent

    # -- assemble ---------------------------------------------------------------------------------------------------
    def build(self) -> Tuple[Dict, Dict]:
        r = self.r
        topo = r.choice(self.p["topologies"])
        self.inv["topology"] = topo
        host_cfgs = getattr(self, f"build_{topo}")()
        self.add_software(host_cfgs)
        agents: List[Dict] = []
        for i in range(r.randint(*self.p["n_green"])):
            agents.append(self.green_agent(f"green_{i}"))
        for i in range(r.randint(*self.p["n_red"])):
            agents.append(self.red_agent(f"red_{i}"))
        if not self.p.get("no_blue"):
            agents.append(self.blue_agent("defender"))
        # reward sharing: acyclic by construction (edges only from earlier to later in a random order)
        if len(agents) >= 2 and self.chance(self.p["reward_sharing"]):
            order = [a["ref"] for a in agents]
            r.shuffle(order)
            for i, ref in enumerate(order[:-1]):
                if self.chance(0.8 if self.p.get("reward_rich") else 0.5):
                    # edges only point to later agents of a random order: acyclic by construction; picking the next one
                    # often makes chains (depth > 1)
                    src = order[i + 1] if self.chance(0.6) else r.choice(order[i + 1 :])
                    ag = next(a for a in agents if a["ref"] == ref)
                    ag.setdefault("reward_function", {"reward_components": []})["reward_components"].append({"type": "shared-reward", "weight": r.choice([1.0, 0.5, -1.0]), "options": {"agent_name": src}})
        r.shuffle(agents)  # declaration order is part of the schedule
        if self.p.get("blue_first") and self.chance(self.p["blue_first"]):
            agents.sort(key=lambda a: a["ref"] != "defender")
        for a in self.inv["agents"]:
            a["order"] = [x["ref"] for x in agents].index(a["ref"])
        lo, hi = self.p["episode_len"]
        game: Dict[str, Any] = {
            "max_episode_length": r.randint(lo, hi),
            "ports": r.choice([["HTTP", "POSTGRES_SERVER"], ["ARP", "DNS", "HTTP", "POSTGRES_SERVER", "FTP", "NTP"]]),
            "protocols": ["ICMP", "TCP", "UDP"],
            "seed": r.randint(0, 2**31 - 1),
        }
        if self.chance(0.6):
            th: Dict[str, Any] = {}
            if self.chance(0.7):
                th["nmne"] = r.choice([{"high": 10, "medium": 5, "low": 0}, {"high": 3, "medium": 2, "low": 1}])
            if self.chance(0.5):
                th["file_access"] = r.choice([{"high": 10, "medium": 5, "low": 2}, {"high": 2, "medium": 1, "low": 0}])
            if self.chance(0.5):
                th["app_executions"] = r.choice([{"high": 5, "medium": 3, "low": 2}, {"high": 2, "medium": 1, "low": 0}])
            game["thresholds"] = th
        network: Dict[str, Any] = {"nodes": self.nodes, "links": self.links}
        if getattr(self, "airspace", None):
            network["airspace"] = self.airspace
        if self.chance(self.p["nmne"]):
            network["nmne_config"] = {"capture_nmne": True, "nmne_capture_keywords": r.choice([["DELETE"], ["DELETE", "ENCRYPT"], ["SELECT", "DELETE", "ENCRYPT", "INSERT"]])}
            self.inv["nmne"] = True
        else:
            if self.chance(0.5):
                network["nmne_config"] = {"capture_nmne": False}
            self.inv["nmne"] = False
        scenario: Dict[str, Any] = {
            "metadata": {"version": 3.0},
            "io_settings": dict(IO_ON if self.chance(self.p["io_on"]) else IO_OFF),
            "game": game,
            "agents": agents,
            "simulation": {"network": network},
        }
        if self.chance(self.p["use_defaults_block"]):
            d = {}
            for k in ("node_scan_duration", "folder_scan_duration", "folder_restore_duration", "service_fix_duration", "service_restart_duration"):
                if self.chance(0.5):
                    d[k] = r.choice(self.p["default_durations"])
            if self.p.get("power_defaults"):
                for k in ("node_start_up_duration", "node_shut_down_duration"):
                    if self.chance(0.5):
                        d[k] = r.choice(self.p["default_durations"])
                # some nodes rely on the default
                for n in self.nodes:
                    if self.chance(0.4):
                        n.pop("start_up_duration", None)
                        n.pop("shut_down_duration", None)
            if "zero_folder_durations" in self.avoid:
                for k in ("folder_scan_duration", "folder_restore_duration"):
                    if d.get(k) == 0:
                        d[k] = 1
            if d:
                scenario["defaults"] = d
                self.inv["defaults"] = dict(d)
        if "zero_power_durations" in self.avoid:
            for n in self.nodes:
                for k in ("start_up_duration", "shut_down_duration"):
                    if n.get(k) == 0:
                        n[k] = 1
            for grp in ("hosts",):
                for h in self.inv[grp].values():
                    for k in ("start_up_duration", "shut_down_duration"):
                        if h.get(k) == 0:
                            h[k] = 1
        self.inv["max_episode_length"] = game["max_episode_length"]
        return scenario, self.inv


def generate(rng: random.Random, profile: Optional[Dict[str, Any]] = None) -> Tuple[Dict, Dict]:
    return Gen(rng, profile or {}).build()


def shape_digest(scenario: Dict) -> str:
    """Scenario-shape digest used for 'distinct' counting: node types, software mix, agent types, sizes."""
    import hashlib
    import json

    nodes = scenario.get("simulation", {}).get("network", {}).get("nodes", [])
    shape = {
        "nodes": sorted((n.get("type"), len(n.get("services", []) or []), len(n.get("applications", []) or [])) for n in nodes),
        "links": len(scenario.get("simulation", {}).get("network", {}).get("links", [])),
        "agents": sorted((a.get("type"), len(a.get("action_space", {}).get("action_map", {}))) for a in scenario.get("agents", [])),
        "len": scenario.get("game", {}).get("max_episode_length"),
    }
    return hashlib.sha256(json.dumps(shape, sort_keys=True, default=str).encode()).hexdigest()[:16]
