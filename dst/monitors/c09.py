"""C09 - observations faithfully encode the simulation's ground truth.

Reference encoder written from the documented values of the simulator enumerations, the class docstrings of the
observation components and docs/source/configuration/agents.rst. It is fed DIRECTLY from simulator objects
(node.operating_state, nic.enabled, software states and healths, folder/file healths, acl.acl[i], link load,
per-tick counters, session manager) - never from describe_state() - and walks the RL agent's observation configuration
as written in the scenario dict. Compared leaf by leaf with agent.observation_manager.current_observation after every
reset and step."""
from __future__ import annotations

import ipaddress
from typing import Any, Dict, List, Optional, Tuple

from dst.core import Violation, jsonable
from dst.monitors import Monitor
from dst.monitors.c02 import abstract_path

PORTS = dict(UNUSED=-1, NONE=0, WOL=9, FTP_DATA=20, FTP=21, SSH=22, SMTP=25, DNS=53, HTTP=80, POP3=110, SFTP=115, NTP=123, IMAP=143, SNMP=161, SNMP_TRAP=162, ARP=219, LDAP=389, HTTPS=443, SMB=445, IPP=631, SQL_SERVER=1433, MYSQL=3306, RDP=3389, RTP=5004, RTP_ALT=5005, DNS_ALT=5353, HTTP_ALT=8080, HTTPS_ALT=8443, POSTGRES_SERVER=5432)


def port_value(p) -> int:
    return PORTS[p] if isinstance(p, str) else int(p)


def proto_value(p) -> str:
    return str(p).lower()


def categorise(count: int, th: Tuple[int, int, int]) -> int:
    low, med, high = th
    if count > high:
        return 3
    if count > med:
        return 2
    if count > low:
        return 1
    return 0


def thresholds(th: Optional[Dict], key: str) -> Tuple[int, int, int]:
    t = (th or {}).get(key)
    if t is None:
        return (0, 5, 10)
    return (t["low"], t["medium"], t["high"])


def load_category(load: float, capacity: float) -> int:
    if load == 0:
        return 0
    return min(int(load / capacity * 9) + 1, 10)


class RefEncoder:
    """Expected observation for one RL agent; holds the one-step NMNE memory of each observed NIC."""

    def __init__(self, agent_cfg: Dict, game_thresholds: Optional[Dict]):
        self.cfg = agent_cfg.get("observation_space") or {"type": "none"}
        self.th = game_thresholds or {}
        self.nmne_last: Dict[Tuple, Tuple[int, int]] = {}
        self.leaf_values_seen: Dict[str, set] = {}

    # ---- helpers --------------------------------------------------------------------------------------------
    def encode(self, net, capture_nmne: bool) -> Any:
        self.net = net
        self.capture_nmne = capture_nmne
        t = self.cfg.get("type", "none")
        if t == "none":
            return 0
        if t != "custom":
            raise NotImplementedError(f"reference encoder: observation type {t}")
        out = {}
        for comp in self.cfg.get("options", {}).get("components", []):
            out[comp["label"]] = self.component(comp["type"], comp.get("options") or {})
        return out

    def component(self, typ: str, o: Dict) -> Any:
        if typ == "none":
            return 0
        if typ == "nodes":
            return self.nodes(o)
        if typ == "links":
            return {i + 1: self.link(ref) for i, ref in enumerate(o.get("link_references", []))}
        raise NotImplementedError(f"reference encoder: component {typ}")

    def link(self, ref: str) -> Dict:
        def find(r):
            for l in self.net.links.values():
                a, b = l.endpoint_a, l.endpoint_b
                na, nb = a._connected_node, b._connected_node
                if na is None or nb is None:
                    continue
                key = f"{na.config.hostname}:eth-{a.port_num}<->{nb.config.hostname}:eth-{b.port_num}"
                if key == r:
                    return l
            return None

        l = find(ref) or find("<->".join(ref.split("<->")[::-1]))
        if l is None:
            return {"PROTOCOLS": {"ALL": 0}}
        return {"PROTOCOLS": {"ALL": load_category(l.current_load, l.bandwidth)}}

    # ---- nodes ----------------------------------------------------------------------------------------------------
    def nodes(self, o: Dict) -> Dict:
        out = {}
        for i, h in enumerate(o.get("hosts", [])):
            out[f"HOST{i}"] = self.host(h, o)
        for i, r in enumerate(o.get("routers", [])):
            out[f"ROUTER{i}"] = self.router(r, o)
        for i, f in enumerate(o.get("firewalls", [])):
            out[f"FIREWALL{i}"] = self.firewall(f, o)
        return out

    @staticmethod
    def opt(h: Dict, o: Dict, key: str, default=None):
        v = h.get(key)
        if v is None:
            v = o.get(key)
        return default if v is None else v

    def host(self, h: Dict, o: Dict) -> Dict:
        g = lambda k, d=None: self.opt(h, o, k, d)  # noqa: E731
        num_services, num_apps, num_folders, num_files, num_nics = g("num_services"), g("num_applications"), g("num_folders"), g("num_files"), g("num_nics")
        include_nmne, traffic_cfg, num_access = g("include_nmne"), g("monitored_traffic"), g("include_num_access")
        fs_scan, svc_scan, app_scan = g("file_system_requires_scan", True), g("services_requires_scan", True), g("applications_requires_scan", True)
        # HostObservation.ConfigSchema defaults include_users to True, so a nodes-level value is never inherited by
        # hosts; which leaves exist is not what C09 is about (values are), so the reference follows the built structure
        include_users = h.get("include_users", True)
        if include_users is None:
            include_users = o.get("include_users", True)
        node = self.net.get_node_by_hostname(h["hostname"])
        on = node is not None and node.operating_state.name == "ON"
        obs: Dict[str, Any] = {}
        svc_names = [s["service_name"] for s in h.get("services", [])][:num_services]
        app_names = [a["application_name"] for a in h.get("applications", [])][:num_apps]
        folder_cfgs = list(h.get("folders", []))[:num_folders]
        if num_services:
            obs["SERVICES"] = {}
            for i in range(num_services):
                name = svc_names[i] if i < len(svc_names) else None
                obs["SERVICES"][i + 1] = self.service(node, name, svc_scan) if on else {"operating_status": 0, "health_status": 0}
        if num_apps:
            obs["APPLICATIONS"] = {}
            for i in range(num_apps):
                name = app_names[i] if i < len(app_names) else None
                obs["APPLICATIONS"][i + 1] = self.application(node, name, app_scan) if on else {"operating_status": 0, "health_status": 0, "num_executions": 0}
        if num_folders:
            obs["FOLDERS"] = {}
            for i in range(num_folders):
                fc = folder_cfgs[i] if i < len(folder_cfgs) else None
                obs["FOLDERS"][i + 1] = self.folder(node if on else None, fc, num_files, num_access, fs_scan)
        if num_nics:
            obs["NICS"] = {}
            for i in range(num_nics):
                obs["NICS"][i + 1] = self.nic(node if on else None, h["hostname"], i + 1, include_nmne, traffic_cfg)
        if num_access:
            obs["num_file_creations"] = min(node.file_system.num_file_creations, 3) if on else 0
            obs["num_file_deletions"] = min(node.file_system.num_file_deletions, 3) if on else 0
        if include_users:
            obs["users"] = self.users(node if on else None)
        obs["operating_status"] = node.operating_state.value if node is not None else 0
        return obs

    def users(self, node) -> Dict:
        if node is None:
            return {"local_login": 0, "remote_sessions": 0}
        usm = node.software_manager.software.get("user-session-manager")
        if usm is None:
            return {"local_login": 0, "remote_sessions": 0}
        return {"local_login": 1 if usm.local_session is not None else 0, "remote_sessions": min(3, len(usm.remote_sessions))}

    def service(self, node, name: Optional[str], requires_scan: bool) -> Dict:
        from primaite.simulator.system.services.service import Service

        sw = node.software_manager.software.get(name) if name else None
        if sw is None or not isinstance(sw, Service):
            return {"operating_status": 0, "health_status": 0}
        op = sw.operating_state.value
        if name in ("ftp-client", "ftp-server") and op == 1:
            # documented design of the FTP services (ftp_service.py): they report RUNNING only in a tick in which they
            # transmit data and STOPPED while idle - both encodings are accepted for a running FTP service
            op = AnyOf(1, 2)
        return {"operating_status": op, "health_status": (sw.health_state_visible if requires_scan else sw.health_state_actual).value}

    def application(self, node, name: Optional[str], requires_scan: bool) -> Dict:
        from primaite.simulator.system.applications.application import Application

        sw = node.software_manager.software.get(name) if name else None
        if sw is None or not isinstance(sw, Application):
            return {"operating_status": 0, "health_status": 0, "num_executions": 0}
        return {
            "operating_status": sw.operating_state.value,
            "health_status": (sw.health_state_visible if requires_scan else sw.health_state_actual).value,
            "num_executions": categorise(sw.num_executions, thresholds(self.th, "app_executions")),
        }

    def folder(self, node, fc: Optional[Dict], num_files: int, num_access: bool, requires_scan: bool) -> Dict:
        def file_default():
            d = {"health_status": 0}
            if num_access:
                d["num_access"] = 0
            return d

        fobj = node.file_system.get_folder(fc["folder_name"]) if (node is not None and fc) else None
        obs: Dict[str, Any] = {"health_status": 0}
        if fobj is not None:
            obs["health_status"] = (fobj.visible_health_status if requires_scan else fobj.health_status).value
        if num_files:
            names = [f["file_name"] for f in (fc or {}).get("files", [])][:num_files]
            obs["FILES"] = {}
            for i in range(num_files):
                f = fobj.get_file(names[i]) if (fobj is not None and i < len(names)) else None
                if f is None:
                    obs["FILES"][i + 1] = file_default()
                else:
                    d = {"health_status": (f.visible_health_status if requires_scan else f.health_status).value}
                    if num_access:
                        d["num_access"] = categorise(f.num_access, thresholds(self.th, "file_access"))
                    obs["FILES"][i + 1] = d
        return obs

    def nic(self, node, hostname: str, k: int, include_nmne: bool, traffic_cfg: Optional[Dict]) -> Dict:
        nic = node.network_interface.get(k) if node is not None else None
        obs: Dict[str, Any] = {"nic_status": 0}
        present = nic is not None
        if present:
            obs["nic_status"] = 1 if nic.enabled else 2
        if traffic_cfg:
            t: Dict[str, Any] = {}
            for proto, ports in traffic_cfg.items():
                p = proto_value(proto)
                if p == "icmp":
                    if present:
                        rec = nic.traffic.get("icmp") or {}
                        t["icmp"] = {"inbound": self.traffic_cat(rec.get("inbound", 0), nic), "outbound": self.traffic_cat(rec.get("outbound", 0), nic)}
                    else:
                        t["icmp"] = {"inbound": 0, "outbound": 0}
                else:
                    t[p] = {}
                    for port in ports:
                        pv = port_value(port)
                        rec = ((nic.traffic.get(p) or {}).get(pv) or {}) if present else {}
                        t[p][pv] = {"inbound": self.traffic_cat(rec.get("inbound", 0), nic) if present else 0, "outbound": self.traffic_cat(rec.get("outbound", 0), nic) if present else 0}
            obs["TRAFFIC"] = t
        if include_nmne:
            if present and self.capture_nmne:
                d = (nic.nmne or {}).get("direction", {})
                inbound = d.get("inbound", {}).get("keywords", {}).get("*", 0)
                outbound = d.get("outbound", {}).get("keywords", {}).get("*", 0)
                last = self.nmne_last.get((hostname, k), (0, 0))
                th = thresholds(self.th, "nmne")
                obs["NMNE"] = {"inbound": categorise(inbound - last[0], th), "outbound": categorise(outbound - last[1], th)}
                self.nmne_last[(hostname, k)] = (inbound, outbound)
            else:
                obs["NMNE"] = {"inbound": 0, "outbound": 0}
        return obs

    @staticmethod
    def traffic_cat(value: float, nic) -> int:
        if value == 0:
            return 0
        return min(int(value / nic.speed * 9) + 1, 10)

    # ---- routers / firewalls ----------------------------------------------------------------------------------
    def acl(self, acl_obj, o: Dict, r: Dict) -> Dict:
        g = lambda k: self.opt(r, o, k)  # noqa: E731
        acl_over = r.get("acl") or {}
        ip_list = [str(ipaddress.IPv4Address(x)) for x in (acl_over.get("ip_list") or g("ip_list") or [])]
        wc_list = list(acl_over.get("wildcard_list") or g("wildcard_list") or [])
        port_list = [port_value(x) for x in (acl_over.get("port_list") or g("port_list") or [])]
        proto_list = [proto_value(x) for x in (acl_over.get("protocol_list") or g("protocol_list") or [])]
        num_rules = acl_over.get("num_rules") or g("num_rules")
        ip_id = {p: i + 2 for i, p in enumerate(ip_list)}
        wc_id = {p: i + 2 for i, p in enumerate(wc_list)}
        port_id = {p: i + 2 for i, p in enumerate(port_list)}
        proto_id = {p: i + 2 for i, p in enumerate(proto_list)}
        out = {}
        for i in range(num_rules):
            rule = acl_obj.acl[i] if acl_obj is not None and i < len(acl_obj.acl) else None
            if rule is None:
                out[i] = {"position": i, "permission": 0, "source_ip_id": 0, "source_wildcard_id": 0, "source_port_id": 0, "dest_ip_id": 0, "dest_wildcard_id": 0, "dest_port_id": 0, "protocol_id": 0}
                continue
            out[i] = {
                "position": i,
                "permission": rule.action.value,
                "source_ip_id": 1 if rule.src_ip_address is None else ip_id.get(str(rule.src_ip_address), 1),
                "source_wildcard_id": 1 if rule.src_wildcard_mask is None else wc_id.get(str(rule.src_wildcard_mask), 1),
                "source_port_id": 1 if rule.src_port is None else port_id.get(rule.src_port, 1),
                "dest_ip_id": 1 if rule.dst_ip_address is None else ip_id.get(str(rule.dst_ip_address), 1),
                "dest_wildcard_id": 1 if rule.dst_wildcard_mask is None else wc_id.get(str(rule.dst_wildcard_mask), 1),
                "dest_port_id": 1 if rule.dst_port is None else port_id.get(rule.dst_port, 1),
                "protocol_id": 1 if rule.protocol is None else proto_id.get(rule.protocol, 1),
            }
        return out

    def router(self, r: Dict, o: Dict) -> Dict:
        node = self.net.get_node_by_hostname(r["hostname"])
        on = node is not None and node.operating_state.name == "ON"
        num_ports = self.opt(r, o, "num_ports")
        include_users = self.opt(r, o, "include_users", True)
        obs: Dict[str, Any] = {"ACL": self.acl(node.acl if on else None, o, r)}
        ports_cfg = r.get("ports")
        if ports_cfg is None:
            port_ids = list(range(1, (num_ports or 0) + 1))
        else:
            port_ids = [p["port_id"] for p in ports_cfg]
        port_ids = port_ids[: num_ports or 0]
        if num_ports:
            obs["PORTS"] = {}
            for i in range(num_ports):
                pid = port_ids[i] if i < len(port_ids) else None
                nic = node.network_interface.get(pid) if (on and pid is not None) else None
                obs["PORTS"][i + 1] = {"operating_status": 0 if nic is None else (1 if nic.enabled else 2)}
        if include_users:
            obs["users"] = self.users(node if on else None)
        return obs

    def firewall(self, f: Dict, o: Dict) -> Dict:
        node = self.net.get_node_by_hostname(f["hostname"])
        on = node is not None and node.operating_state.name == "ON"
        include_users = self.opt(f, o, "include_users", True)

        def a(name):
            return self.acl(getattr(node, name) if on else None, o, f)

        obs: Dict[str, Any] = {
            "PORTS": {i: {"operating_status": 0 if not on or node.network_interface.get(i) is None else (1 if node.network_interface[i].enabled else 2)} for i in (1, 2, 3)},
            "ACL": {
                "INTERNAL": {"INBOUND": a("internal_inbound_acl"), "OUTBOUND": a("internal_outbound_acl")},
                "DMZ": {"INBOUND": a("dmz_inbound_acl"), "OUTBOUND": a("dmz_outbound_acl")},
                "EXTERNAL": {"INBOUND": a("external_inbound_acl"), "OUTBOUND": a("external_outbound_acl")},
            },
        }
        if include_users:
            obs["users"] = self.users(node if on else None)
        return obs


class AnyOf:
    """Expected leaf with several admissible encodings (used only where the documentation allows more than one)."""

    def __init__(self, *values):
        self.values = values

    def __repr__(self):
        return "one of " + repr(self.values)


def first_diff(exp: Any, got: Any, path: Tuple = ()) -> Optional[Tuple[Tuple, Any, Any]]:
    if isinstance(exp, AnyOf):
        try:
            return None if int(got) in exp.values else (path, repr(exp), got)
        except Exception:
            return path, repr(exp), got
    if isinstance(exp, dict):
        if not isinstance(got, dict):
            return path, exp, got
        ek, gk = {str(k) for k in exp}, {str(k) for k in got}
        if ek != gk:
            return path + ("<keys>",), sorted(ek), sorted(gk)
        gmap = {str(k): v for k, v in got.items()}
        for k, v in exp.items():
            d = first_diff(v, gmap[str(k)], path + (k,))
            if d:
                return d
        return None
    try:
        same = int(exp) == int(got)
    except Exception:
        same = exp == got
    return None if same else (path, exp, got)


class C09Monitor(Monitor):
    name = "c09"
    prop = "C09"

    def __init__(self, run):
        super().__init__(run)
        self.enc: Optional[RefEncoder] = None
        self.seen: Dict[str, set] = {}

    def _agent_cfg(self, run) -> Optional[Dict]:
        name = run.env._agent_name
        # episode-scheduled scenarios: the config of the current episode
        try:
            cfg = run.env.episode_scheduler(run.env.episode_counter)
        except Exception:
            cfg = run.scenario
        for a in cfg.get("agents", []):
            if a.get("ref") == name:
                return a, cfg.get("game", {}).get("thresholds")
        return None

    def new_episode(self, run):
        ac = self._agent_cfg(run)
        self.enc = RefEncoder(ac[0], ac[1]) if ac else None

    def check(self, run, when: str):
        if self.enc is None:
            return
        from primaite.simulator.network.hardware.base import NetworkInterface

        net = run.env.game.simulation.network
        cap = bool(NetworkInterface.nmne_config and NetworkInterface.nmne_config.capture_nmne)
        exp = self.enc.encode(net, cap)
        got = run.env.agent.observation_manager.current_observation
        d = first_diff(exp, got)
        self.count("observations_compared")
        self._track(exp)
        if d:
            path, e, g = d
            ctx = self.context(run, path)
            raise Violation(
                "C09",
                "observation-differs-from-ground-truth",
                f"{when}: observation leaf {'.'.join(map(str, path))} is {g!r}, ground truth encodes to {e!r} ({ctx})",
                sig=f"observation-differs-from-ground-truth:{abstract_path(path)}",
                detail={"path": [str(p) for p in path], "expected": jsonable(e), "observed": jsonable(g), "context": ctx},
            )

    def context(self, run, path) -> str:
        try:
            comp = path[1] if len(path) > 1 else ""
            cfgs = self.enc.cfg["options"]["components"]
            nodes_opts = next(c["options"] for c in cfgs if c["type"] == "nodes")
            if str(comp).startswith("HOST"):
                hn = nodes_opts["hosts"][int(str(comp)[4:])]["hostname"]
            elif str(comp).startswith("ROUTER"):
                hn = nodes_opts["routers"][int(str(comp)[6:])]["hostname"]
            elif str(comp).startswith("FIREWALL"):
                hn = nodes_opts["firewalls"][int(str(comp)[8:])]["hostname"]
            else:
                return ""
            n = run.env.game.simulation.network.get_node_by_hostname(hn)
            return f"node {hn} is {n.operating_state.name if n is not None else 'absent'}; requires_scan fs/svc/app = {nodes_opts.get('file_system_requires_scan', True)}/{nodes_opts.get('services_requires_scan', True)}/{nodes_opts.get('applications_requires_scan', True)}"
        except Exception:
            return ""

    def _track(self, obs, key=""):
        if isinstance(obs, dict):
            for k, v in obs.items():
                self._track(v, abstract_path((k,)) if not isinstance(v, dict) else key)
        elif not isinstance(obs, AnyOf):
            self.seen.setdefault(key, set()).add(int(obs) if not isinstance(obs, str) else obs)

    def after_build(self, run):
        self.new_episode(run)
        self.check(run, "after construction")

    def after_reset(self, run, seed, ret):
        self.new_episode(run)
        self.check(run, "after reset")

    def after_step(self, run, action, ret):
        self.check(run, "after step")

    def stats(self):
        return {**self.counters, "leaf_values_seen": {k: sorted(v) for k, v in sorted(self.seen.items())}}
