"""C01 - step/reset total, episode contract. Counters are kept by the harness, never read back from the game."""
from __future__ import annotations

import math
import numbers

from dst.core import Violation
from dst.monitors import Monitor


class C01Monitor(Monitor):
    name = "c01"
    prop = "C01"

    def __init__(self, run):
        super().__init__(run)
        self.prev_step_counter = None
        self.prev_hist = {}
        self.prev_episode_counter = None

    def _snap(self, run):
        g = run.env.game
        self.prev_step_counter = g.step_counter
        self.prev_hist = {n: len(a.history) for n, a in g.agents.items()}
        self.prev_episode_counter = run.env.episode_counter

    def after_build(self, run):
        self._snap(run)

    def before_step(self, run, action):
        self._snap(run)
        m = run.env.game.options.max_episode_length
        if run.steps_since_reset >= m:
            run.probe("step_past_truncation")
        try:
            mask_on = run.env.agent.config.agent_settings.action_masking
            if mask_on and not bool(run.env.action_masks()[action]):
                run.probe("masked_action_executed")
        except Exception:
            pass

    def after_step(self, run, action, ret):
        def bad(clause, msg, **detail):
            raise Violation("C01", clause, msg, sig=f"{clause}", detail={"action": action, **detail})

        if not (isinstance(ret, tuple) and len(ret) == 5):
            bad("step-return-shape", f"step returned {type(ret).__name__} of length {len(ret) if hasattr(ret, '__len__') else '?'}")
        obs, reward, terminated, truncated, info = ret
        if isinstance(reward, bool) or not isinstance(reward, numbers.Real) or not math.isfinite(float(reward)):
            bad("reward-not-finite-number", f"reward {reward!r} ({type(reward).__name__})")
        if terminated is not False:
            bad("terminated-not-false", f"terminated = {terminated!r}")
        g = run.env.game
        expect_trunc = run.steps_since_reset >= g.options.max_episode_length
        if bool(truncated) != expect_trunc or not isinstance(truncated, (bool,)):
            bad("truncated-mismatch", f"truncated={truncated!r} after {run.steps_since_reset} steps in the episode, max_episode_length={g.options.max_episode_length}")
        if expect_trunc:
            run.probe("truncated_true")
        if g.step_counter != self.prev_step_counter + 1:
            bad("tick-not-advanced-by-one", f"step_counter {self.prev_step_counter} -> {g.step_counter}")
        if set(g.agents) != set(self.prev_hist):
            bad("agent-set-changed", f"agents {sorted(self.prev_hist)} -> {sorted(g.agents)}")
        from primaite.interface.request import RequestResponse

        for name, agent in g.agents.items():
            n = len(agent.history)
            if n != self.prev_hist[name] + 1:
                bad("history-not-advanced-by-one", f"agent {name}: len(history) {self.prev_hist[name]} -> {n}", agent=name)
            item = agent.history[-1]
            if item.timestep != self.prev_step_counter:
                bad("history-timestep", f"agent {name}: history item timestep {item.timestep}, tick was {self.prev_step_counter}", agent=name)
            if not isinstance(item.response, RequestResponse) or item.response.status not in ("success", "failure", "unreachable", "pending"):
                bad("history-response", f"agent {name}: response {item.response!r}", agent=name)
            if item.response.status != "success":
                run.probe("agent_action_refused")
        aa = info.get("agent_actions") if isinstance(info, dict) else None
        if not isinstance(aa, dict) or set(aa) != set(g.agents):
            bad("info-agent-actions", f"info['agent_actions'] keys {sorted(aa) if isinstance(aa, dict) else aa!r} != agents {sorted(g.agents)}")
        self.count("steps_checked")

    def before_reset(self, run, seed):
        self._snap(run)
        if run.steps_since_reset == 0:
            run.probe("reset_at_step_0")
        elif run.steps_since_reset < run.env.game.options.max_episode_length:
            run.probe("reset_mid_episode")
        else:
            run.probe("reset_after_truncation")

    def after_reset(self, run, seed, ret):
        def bad(clause, msg):
            raise Violation("C01", clause, msg, sig=clause, detail={"reset_seed": seed})

        if not (isinstance(ret, tuple) and len(ret) == 2 and isinstance(ret[1], dict)):
            bad("reset-return-shape", f"reset returned {ret!r:.200}")
        g = run.env.game
        if g.step_counter != 0:
            bad("reset-tick-not-zero", f"step_counter after reset = {g.step_counter}")
        if run.env.episode_counter != self.prev_episode_counter + 1:
            bad("reset-episode-counter", f"episode_counter {self.prev_episode_counter} -> {run.env.episode_counter}")
        for name, agent in g.agents.items():
            if len(agent.history) != 0:
                bad("reset-history-not-empty", f"agent {name} has {len(agent.history)} history items after reset")
            if agent.reward_function.total_reward != 0:
                bad("reset-total-reward-not-zero", f"agent {name} total_reward {agent.reward_function.total_reward} after reset")
        self.count("resets_checked")
