"""C07 passive monitor: every AccessControlList.is_permitted call made during ANY simulated run is re-decided by the
reference packet filter on the live rule list (so verdicts are checked on the frames the simulated hosts, routers and
attackers really emit) - verdict, deciding rule, and exactly one hit counter incremented."""
from __future__ import annotations

from dst.core import Violation
from dst.models.acl import RefACL, packet_of_frame, rule_from_object
from dst.monitors import Monitor


class C07Monitor(Monitor):
    name = "c07"
    prop = "C07"

    def __init__(self, run):
        super().__init__(run)
        self.pending = None

    def install(self, run):
        from primaite.simulator.network.hardware.nodes.network.router import AccessControlList

        mon = self

        def wrap(orig):
            def is_permitted(acl, frame):
                before = [None if r is None else r.match_count for r in acl.acl]
                implicit_before = acl.implicit_rule.match_count
                ref = RefACL(implicit_permit=acl.implicit_action.name == "PERMIT", size=len(acl.acl), slots=[None if r is None else rule_from_object(r) for r in acl.acl])
                pkt = packet_of_frame(frame)
                exp_permit, exp_idx = ref.verdict(pkt, count=False)
                permitted, rule = orig(acl, frame)
                mon.count("verdicts_checked")
                if exp_idx is not None:
                    run.probe("c07_rule_decided")
                    if not exp_permit:
                        run.probe("c07_frame_denied_by_rule")
                else:
                    run.probe("c07_implicit_decided")
                got_idx = next((i for i, r in enumerate(acl.acl) if r is rule), None)
                if bool(permitted) != exp_permit or got_idx != exp_idx or (exp_idx is None and rule is not acl.implicit_rule):
                    mon.pending = mon.pending or Violation(
                        "C07",
                        "verdict-differs-from-reference",
                        f"ACL {acl.name}: packet {pkt}: code says {'PERMIT' if permitted else 'DENY'} by {'rule ' + str(got_idx) if got_idx is not None else 'implicit rule'}, reference says {'PERMIT' if exp_permit else 'DENY'} by {'rule ' + str(exp_idx) if exp_idx is not None else 'implicit rule'}",
                        sig="verdict-differs-from-reference",
                        detail={"packet": pkt, "rules": [None if r is None else list(rule_from_object(r).key()) for r in acl.acl]},
                    )
                after = [None if r is None else r.match_count for r in acl.acl]
                for i, (b, a) in enumerate(zip(before, after)):
                    want = (b or 0) + (1 if i == exp_idx else 0)
                    if a is not None and b is not None and a != want:
                        mon.pending = mon.pending or Violation("C07", "hit-counter", f"ACL {acl.name}: rule {i} counter {b} -> {a}, deciding rule was {exp_idx}", sig="hit-counter", detail={"packet": pkt})
                if acl.implicit_rule.match_count != implicit_before + (1 if exp_idx is None else 0):
                    mon.pending = mon.pending or Violation("C07", "hit-counter", f"ACL {acl.name}: implicit counter {implicit_before} -> {acl.implicit_rule.match_count}, deciding rule was {exp_idx}", sig="hit-counter:implicit", detail={"packet": pkt})
                return permitted, rule

            return is_permitted

        self.patch(AccessControlList, "is_permitted", wrap)

    def _raise(self):
        if self.pending is not None:
            v, self.pending = self.pending, None
            raise v

    def after_step(self, run, action, ret):
        self._raise()

    def after_req(self, run, req, label, resp):
        self._raise()

    def after_tick(self, run):
        self._raise()

    def after_reset(self, run, seed, ret):
        self._raise()

    def on_step_exception(self, run, action, exc):
        self._raise()

    def end(self, run):
        self._raise()
