"""C11 - the action mask agrees with what the simulator would refuse.

After every step/reset: for EVERY entry of the action map, mask[i] == independent dry run of the entry's request.
For the executed entry (chosen uniformly, masked-out ones included), when the RL agent is the first agent to act in the
tick (so nothing but pre_timestep lies between the mask and the execution): mask 0 => the request did not reach a
handler and did not succeed; mask 1 => it was not turned away by a missing key or a validator."""
from __future__ import annotations

from dst.core import Violation, jsonable
from dst.monitors import Monitor
from dst.monitors.reqtrace import ReqTrace, dry_run


class C11Monitor(Monitor):
    name = "c11"
    prop = "C11"

    def __init__(self, run):
        super().__init__(run)
        self.trace = ReqTrace()
        self.mask_before = None

    def install(self, run):
        self.trace.install()
        self._patches.append((None, None, None))  # marks this monitor as adding frames to the call stack

    def uninstall(self, run):
        self.trace.uninstall()
        self._patches = []

    def masking(self, run) -> bool:
        return bool(run.env.agent.config.agent_settings.action_masking)

    def check_mask(self, run, when: str):
        if not self.masking(run):
            return
        env = run.env
        agent = env.agent
        mask = env.action_masks()
        rm = env.game.simulation._request_manager
        n0 = n1 = 0
        for i, (ident, opts) in agent.action_manager.action_map.items():
            req = agent.action_manager.form_request(action_identifier=ident, action_options=opts)
            exp = dry_run(rm, req)
            if bool(mask[i]) != exp:
                node = env.game.simulation.network.get_node_by_hostname(opts.get("node_name") or opts.get("target_nodename") or opts.get("source_node") or opts.get("target_router") or opts.get("target_firewall_nodename") or "")
                state = node.operating_state.name if node is not None else "no-such-node"
                raise Violation(
                    "C11",
                    "mask-disagrees-with-dry-run",
                    f"{when}: action {i} {ident} {opts}: mask says {'available' if mask[i] else 'unavailable'}, an independent dry run of {req} says {'available' if exp else 'refused'} (node state {state})",
                    sig=f"mask-disagrees-with-dry-run:{ident}:mask={int(mask[i])}:node={state if state in ('ON', 'no-such-node') else 'not-ON'}",
                    detail={"action": ident, "options": jsonable(opts), "request": jsonable(req), "node_state": state},
                )
            if exp:
                n1 += 1
            else:
                n0 += 1
        self.count("mask_entries_checked", n0 + n1)
        self.count("mask_entries_unavailable", n0)
        if n0:
            run.probe("c11_some_action_masked_out")
        net = env.game.simulation.network
        if any(n.operating_state.name in ("SHUTTING_DOWN", "BOOTING") for n in net.nodes.values()):
            run.probe("c11_mask_checked_in_transitional_state")

    def after_build(self, run):
        self.check_mask(run, "after construction")

    def after_reset(self, run, seed, ret):
        self.check_mask(run, "after reset")

    def before_step(self, run, action):
        self.mask_before = None
        if self.masking(run):
            self.mask_before = bool(run.env.action_masks()[action])
            self.trace.history.clear()

    def after_step(self, run, action, ret):
        if self.mask_before is not None:
            env = run.env
            first = next(iter(env.game.agents))
            if first == env._agent_name and self.trace.history:
                tr = self.trace.history[0]  # the RL agent's request is the first top-level request of the tick
                hist = env.agent.history[-1]
                ident = hist.action
                if jsonable(tr["request"]) == jsonable(hist.request):
                    if not self.mask_before:
                        run.probe("c11_masked_out_action_executed")
                        if tr["handler"] or hist.response.status == "success":
                            raise Violation("C11", "masked-out-action-reached-handler", f"action {action} {ident} was masked out but its request {hist.request} {'reached its handler' if tr['handler'] else 'succeeded'} (status {hist.response.status})", sig=f"masked-out-action-reached-handler:{ident}", detail={"trace": jsonable(tr)})
                    else:
                        run.probe("c11_allowed_action_executed")
                        if tr["end"] in ("key-miss", "validator"):
                            raise Violation("C11", "allowed-action-refused-before-handler", f"action {action} {ident} was allowed by the mask but its request {hist.request} was turned away by a {tr['end']} at depth {tr['depth']} ({tr.get('validator')})", sig=f"allowed-action-refused-before-handler:{ident}:{tr['end']}", detail={"trace": jsonable(tr)})
            else:
                run.probe("c11_rl_agent_not_first")
        self.check_mask(run, "after step")
