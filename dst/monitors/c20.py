"""C20 (first sentence) - the simulation built from a scenario is what the scenario says. Step 0 of a run: an inventory
derived independently from the scenario dict is compared with the object graph PrimaiteGame.from_config built. Only
items / options the scenario states are compared, so the oracle cannot demand more than the file says."""
from __future__ import annotations

import ipaddress
from typing import Any, Dict, List, Optional

from dst.core import Violation, jsonable
from dst.models.acl import RefRule, ip_int, rule_from_object
from dst.monitors import Monitor

PORTS = dict(UNUSED=-1, NONE=0, WOL=9, FTP_DATA=20, FTP=21, SSH=22, SMTP=25, DNS=53, HTTP=80, POP3=110, SFTP=115, NTP=123, IMAP=143, SNMP=161, SNMP_TRAP=162, ARP=219, LDAP=389, HTTPS=443, SMB=445, IPP=631, SQL_SERVER=1433, MYSQL=3306, RDP=3389, RTP=5004, RTP_ALT=5005, DNS_ALT=5353, HTTP_ALT=8080, HTTPS_ALT=8443, POSTGRES_SERVER=5432)
HOST_TYPES = ("computer", "server", "printer")


def port_of(p) -> int:
    return PORTS[p] if isinstance(p, str) else int(p)


def rule_key(c: Dict):
    return RefRule(
        permit=c["action"] == "PERMIT",
        protocol=str(c["protocol"]).lower() if c.get("protocol") else None,
        src_ip=ip_int(c.get("src_ip")),
        src_wc=ip_int(c.get("src_wildcard_mask")),
        dst_ip=ip_int(c.get("dst_ip")),
        dst_wc=ip_int(c.get("dst_wildcard_mask")),
        src_port=port_of(c["src_port"]) if c.get("src_port") else None,
        dst_port=port_of(c["dst_port"]) if c.get("dst_port") else None,
    ).key()


class C20Monitor(Monitor):
    name = "c20"
    prop = "C20"

    def bad(self, clause: str, msg: str, sig_extra: str = "", **detail):
        raise Violation("C20", clause, msg, sig=clause + (":" + sig_extra if sig_extra else ""), detail=detail)

    def install(self, run):
        import copy

        # the declaration is kept apart from the dict handed to the code (which is free to consume what it is given)
        self.pristine = copy.deepcopy(run.scenario)

    @staticmethod
    def schedule_config(path: str, episode: int) -> Dict:
        """The scenario an episode-scheduled directory declares for an episode, assembled independently of the code:
        schedule.yaml names the base scenario and, per episode, the variant files whose text is put in front of the
        base scenario's text (so that its anchors resolve); past the end the schedule starts again."""
        import os

        import yaml

        with open(os.path.join(path, "schedule.yaml")) as f:
            sched = yaml.safe_load(f)
        order = sched["schedule"]
        keys = sorted(order)
        files = order[keys[episode % len(keys)]]
        texts = []
        for fn in list(files) + [sched["base_scenario"]]:
            with open(os.path.join(path, fn)) as f:
                texts.append(f.read())
        cfg = yaml.safe_load("\n".join(texts))
        flat = []
        for a in cfg.get("agents") or []:
            if isinstance(a, list):
                flat.extend(a)
            else:
                flat.append(a)
        cfg["agents"] = flat
        return cfg

    def declared(self, run, episode: int) -> Dict:
        import copy

        path = getattr(run, "schedule_path", None)
        if path:
            run.probe("c20_schedule_episode_compared")
            return self.schedule_config(path, episode)
        return copy.deepcopy(self.pristine)

    def after_build(self, run):
        self.compare(run, self.declared(run, 0), "after construction")

    def after_reset(self, run, seed, ret):
        ep = run.env.episode_counter
        self.compare(run, self.declared(run, ep), f"after reset (episode {ep})", after_reset=True)

    def compare(self, run, cfg: Dict, when: str, after_reset: bool = False):
        game = run.env.game if getattr(run, "env", None) is not None else run.game
        net = game.simulation.network
        ncfg = (cfg.get("simulation") or {}).get("network") or {}
        nodes_cfg = ncfg.get("nodes") or []
        if ncfg.get("node_sets"):
            return  # node sets expand to generated hostnames: not covered by this oracle
        declared = {n["hostname"]: n for n in nodes_cfg}
        built = {n.config.hostname: n for n in net.nodes.values()}
        if sorted(declared) != sorted(built):
            self.bad("node-set-differs", f"{when}: declared nodes {sorted(declared)} != built nodes {sorted(built)}")
        for hn, c in declared.items():
            node = built[hn]
            t = c["type"]
            if type(node)._discriminator != t:
                self.bad("node-type-differs", f"{when}: {hn} declared {t}, built {type(node)._discriminator}")
            if t in HOST_TYPES:
                self.host(when, hn, c, node, after_reset)
            elif t in ("router", "wireless-router"):
                self.router(when, hn, c, node)
            elif t == "firewall":
                self.firewall(when, hn, c, node)
            elif t == "switch":
                if c.get("num_ports") is not None and len(node.network_interface) != c["num_ports"]:
                    self.bad("switch-ports-differ", f"{when}: {hn} declared {c['num_ports']} ports, built {len(node.network_interface)}")
            if not after_reset:
                want = str(c.get("operating_state", "ON")).upper()
                if node.operating_state.name != want:
                    self.bad("initial-power-state-differs", f"{when}: {hn} declared operating_state {want}, built {node.operating_state.name}")
            for k, attr in (("start_up_duration", "start_up_duration"), ("shut_down_duration", "shut_down_duration"), ("node_scan_duration", "node_scan_duration")):
                if k in c and getattr(node.config, attr) != c[k]:
                    self.bad("node-duration-differs", f"{when}: {hn} {k} declared {c[k]}, built {getattr(node.config, attr)}", key=k)
        # defaults blocks: a stated default holds for every item that does not state the value itself
        for where, dcfg in (("defaults", cfg.get("defaults") or {}), ("simulation.defaults", (cfg.get("simulation") or {}).get("defaults") or {})):
            for hn, c in declared.items():
                node = built[hn]
                for dk, ck in (("node_start_up_duration", "start_up_duration"), ("node_shut_down_duration", "shut_down_duration"), ("node_scan_duration", "node_scan_duration")):
                    if dk in dcfg and ck not in c and hasattr(node.config, ck) and getattr(node.config, ck) != dcfg[dk]:
                        self.bad("declared-default-not-honoured", f"{when}: {where}.{dk} is {dcfg[dk]} and {hn} does not state {ck}, but it was built with {getattr(node.config, ck)}", sig_extra=f"{where}:{dk}", key=dk, block=where)
                if "service_fix_duration" in dcfg and c["type"] in HOST_TYPES:
                    for entry in c.get("services") or []:
                        inst = node.software_manager.software.get(entry["type"])
                        if inst is not None and "fixing_duration" not in (entry.get("options") or {}) and inst.config.fixing_duration != dcfg["service_fix_duration"]:
                            self.bad("declared-default-not-honoured", f"{when}: {where}.service_fix_duration is {dcfg['service_fix_duration']} and {hn}/{entry['type']} does not state fixing_duration, but it was built with {inst.config.fixing_duration}", sig_extra=f"{where}:service_fix_duration", key="service_fix_duration", block=where)
            for dk, attr in (("folder_scan_duration", "scan_duration"), ("folder_restore_duration", "restore_duration")):
                if dk in dcfg:
                    for hn, c in declared.items():
                        fs = getattr(built[hn], "file_system", None)
                        for folder in (fs.folders.values() if fs is not None else []):
                            if getattr(folder, attr) != dcfg[dk]:
                                self.bad("declared-default-not-honoured", f"{when}: {where}.{dk} is {dcfg[dk]} but folder {hn}/{folder.name} was built with {attr} {getattr(folder, attr)}", sig_extra=f"{where}:{dk}", key=dk, block=where)
            if dcfg:
                run.probe("c20_defaults_block_compared")
        # links
        want_links = []
        for l in ncfg.get("links") or []:
            want_links.append((frozenset([(l["endpoint_a_hostname"], l["endpoint_a_port"]), (l["endpoint_b_hostname"], l["endpoint_b_port"])]), float(l.get("bandwidth", 100))))
        got_links = []
        for l in net.links.values():
            a, b = l.endpoint_a, l.endpoint_b
            got_links.append((frozenset([(a._connected_node.config.hostname, a.port_num), (b._connected_node.config.hostname, b.port_num)]), float(l.bandwidth)))
        if sorted(map(repr, want_links)) != sorted(map(repr, got_links)):
            missing = [repr(x) for x in want_links if x not in got_links]
            extra = [repr(x) for x in got_links if x not in want_links]
            self.bad("links-differ", f"{when}: declared links not built as declared: missing/different {missing[:3]}, extra {extra[:3]}")
        # agents
        acfg = cfg.get("agents") or []
        if [a["ref"] for a in acfg] != list(game.agents):
            self.bad("agents-differ", f"{when}: declared agents (in order) {[a['ref'] for a in acfg]} != built {list(game.agents)}")
        for a in acfg:
            ag = game.agents[a["ref"]]
            if a["type"] != ag.config.type:
                self.bad("agent-type-differs", f"{when}: agent {a['ref']} declared {a['type']}, built {ag.config.type}")
            if a.get("team") is not None and ag.config.team != a.get("team"):
                self.bad("agent-team-differs", f"{when}: agent {a['ref']} declared team {a.get('team')}, built {ag.config.team}")
            amap = (a.get("action_space") or {}).get("action_map")
            if amap is not None:
                built_map = {k: (v[0], jsonable(v[1])) for k, v in ag.action_manager.action_map.items()}
                want_map = {int(k): (v["action"], jsonable(v.get("options") or {})) for k, v in amap.items()}
                if built_map != want_map:
                    d = [k for k in want_map if built_map.get(k) != want_map[k]][:3]
                    self.bad("agent-action-map-differs", f"{when}: agent {a['ref']} action map entries {d} differ from the declaration")
        self.count("inventories_compared")
        run.probe("c20_inventory_compared")

    # -- hosts ------------------------------------------------------------------------------------------------------------
    def host(self, when: str, hn: str, c: Dict, node, after_reset: bool):
        nic = node.network_interface.get(1)
        if nic is None or str(nic.ip_address) != str(c["ip_address"]) or str(nic.subnet_mask) != str(c.get("subnet_mask", "255.255.255.0")):
            self.bad("host-address-differs", f"{when}: {hn} declared {c['ip_address']}/{c.get('subnet_mask')}, built {getattr(nic, 'ip_address', None)}/{getattr(nic, 'subnet_mask', None)}")
        if "default_gateway" in c and str(node.config.default_gateway) != str(c["default_gateway"]):
            self.bad("host-gateway-differs", f"{when}: {hn} default gateway declared {c['default_gateway']}, built {node.config.default_gateway}")
        if "dns_server" in c and str(node.config.dns_server) != str(c["dns_server"]):
            self.bad("host-dns-differs", f"{when}: {hn} dns server declared {c['dns_server']}, built {node.config.dns_server}")
        for k, nc in (c.get("network_interfaces") or {}).items():
            ips = {str(n.ip_address) for n in node.network_interface.values() if hasattr(n, "ip_address")}
            if str(nc["ip_address"]) not in ips:
                self.bad("extra-interface-missing", f"{when}: {hn} declared extra interface {nc['ip_address']}, built addresses {sorted(ips)}")
        sw = node.software_manager.software
        for kind, listing in (("services", node.services), ("applications", node.applications)):
            for entry in c.get(kind) or []:
                name = entry["type"]
                inst = sw.get(name)
                if inst is None:
                    self.bad("declared-software-missing", f"{when}: {hn} declares {kind[:-1]} {name} which is not installed", software=name)
                same = [x for x in listing.values() if x.name == name]
                if len(same) != 1 or same[0] is not inst:
                    self.bad("declared-software-shadowed", f"{when}: {hn} has {len(same)} instances of {name} in its {kind} list (the configured one must be the only one)", software=name)
                if not after_reset:
                    running = inst.operating_state.name == "RUNNING"
                    node_on = node.operating_state.name == "ON"
                    if node_on and not running:
                        self.bad("declared-software-not-running", f"{when}: {hn}/{name} is declared (so started / run at load) but is {inst.operating_state.name}", software=name)
                self.options(when, hn, name, entry.get("options") or {}, inst)
        um = node.user_manager
        for u in c.get("users") or []:
            acc = um.users.get(u["username"]) if um else None
            if acc is None or acc.password != u["password"] or bool(acc.is_admin) != bool(u.get("is_admin", False)):
                self.bad("declared-user-differs", f"{when}: {hn} user {u['username']} declared {u}, built {acc and (acc.password, acc.is_admin)}")
        for f in c.get("folders") or []:
            fo = node.file_system.get_folder(f["folder_name"])
            if fo is None:
                if not after_reset:
                    self.bad("declared-folder-missing", f"{when}: {hn} folder {f['folder_name']} is declared but does not exist")
                continue
            for fi in f.get("files") or []:
                fobj = fo.get_file(fi["file_name"])
                if fobj is None:
                    self.bad("declared-file-missing", f"{when}: {hn} file {f['folder_name']}/{fi['file_name']} is declared but does not exist")
                if fi.get("size") and fobj.size != fi["size"]:
                    self.bad("declared-file-size-differs", f"{when}: {hn} file {fi['file_name']} declared size {fi['size']}, built {fobj.size}")

    def options(self, when: str, hn: str, name: str, o: Dict, inst):
        def chk(key, got, want=None):
            want = o[key] if want is None else want
            if str(got) != str(want):
                self.bad("software-option-not-honoured", f"{when}: {hn}/{name} option {key} declared {want!r}, built {got!r}", software=name, option=key)

        if "fixing_duration" in o:
            chk("fixing_duration", inst.config.fixing_duration)
        if "listen_on_ports" in o:
            if sorted(inst.listen_on_ports) != sorted(port_of(p) for p in o["listen_on_ports"]):
                self.bad("software-option-not-honoured", f"{when}: {hn}/{name} listen_on_ports declared {o['listen_on_ports']}, built {sorted(inst.listen_on_ports)}", software=name, option="listen_on_ports")
        simple = {
            "database-service": {"backup_server_ip": lambda i: i.backup_server_ip, "db_password": lambda i: i.password},
            "database-client": {"db_server_ip": lambda i: i.server_ip_address, "server_password": lambda i: i.server_password},
            "web-browser": {"target_url": lambda i: i.config.target_url},
            "dns-client": {"dns_server": lambda i: i.config.dns_server},
            "ntp-client": {"ntp_server_ip": lambda i: i.config.ntp_server_ip},
            "ftp-server": {"server_password": lambda i: i.config.server_password},
            "data-manipulation-bot": {"server_ip": lambda i: i.config.server_ip, "payload": lambda i: i.config.payload, "server_password": lambda i: i.config.server_password, "port_scan_p_of_success": lambda i: i.config.port_scan_p_of_success, "data_manipulation_p_of_success": lambda i: i.config.data_manipulation_p_of_success, "repeat": lambda i: i.config.repeat},
            "ransomware-script": {"server_ip": lambda i: i.config.server_ip, "server_password": lambda i: i.config.server_password},
            "dos-bot": {"target_ip_address": lambda i: i.config.target_ip_address, "payload": lambda i: i.config.payload, "repeat": lambda i: i.config.repeat, "port_scan_p_of_success": lambda i: i.config.port_scan_p_of_success, "dos_intensity": lambda i: i.config.dos_intensity, "max_sessions": lambda i: i.config.max_sessions},
            "c2-beacon": {"c2_server_ip_address": lambda i: i.config.c2_server_ip_address, "keep_alive_frequency": lambda i: i.config.keep_alive_frequency},
        }
        for key, getter in simple.get(name, {}).items():
            if key in o:
                chk(key, getter(inst))
        if name == "dns-server" and "domain_mapping" in o:
            got = {k: str(v) for k, v in inst.dns_table.items()} if hasattr(inst, "dns_table") else None
            if got is not None and got != {k: str(v) for k, v in o["domain_mapping"].items()}:
                self.bad("software-option-not-honoured", f"{when}: {hn}/dns-server domain_mapping declared {o['domain_mapping']}, built {got}", software=name, option="domain_mapping")

    # -- routers / firewalls ----------------------------------------------------------------------------------------------------
    def acl_table(self, when: str, hn: str, lname: str, acl, declared: Optional[Dict], defaults: bool):
        live = [None if r is None else rule_from_object(r).key() for r in acl.acl]
        want: List[Any] = [None] * len(live)
        if defaults:
            want[22] = RefRule(True, None, None, None, None, None, 219, 219).key()
            want[23] = RefRule(True, "icmp").key()
        for pos, c in (declared or {}).items():
            want[int(pos)] = rule_key(c)
        if live != want:
            diff = [i for i, (a, b) in enumerate(zip(live, want)) if a != b]
            self.bad("acl-rules-differ", f"{when}: {hn}/{lname}: rule at position {diff[0]} built {live[diff[0]]}, declared {want[diff[0]]} (differing positions {diff})", device=hn, list=lname)

    def routes(self, when: str, hn: str, c: Dict, node):
        want = sorted((str(r["address"]), str(r.get("subnet_mask", "255.255.255.0")), str(r["next_hop_ip_address"]), float(r.get("metric", 0))) for r in c.get("routes") or [])
        got = sorted((str(r.address), str(r.subnet_mask), str(r.next_hop_ip_address), float(r.metric)) for r in node.route_table.routes)
        if want != got:
            self.bad("routes-differ", f"{when}: {hn} declared routes {want}, built {got}")
        d = (c.get("default_route") or {}).get("next_hop_ip_address")
        gd = node.route_table.default_route
        if (d is None) != (gd is None) or (d is not None and str(gd.next_hop_ip_address) != str(d)):
            self.bad("default-route-differs", f"{when}: {hn} default route declared {d}, built {gd and gd.next_hop_ip_address}")

    def router(self, when: str, hn: str, c: Dict, node):
        if c["type"] == "router":
            for p, pc in (c.get("ports") or {}).items():
                nic = node.network_interface.get(int(p))
                if nic is None or str(nic.ip_address) != str(pc["ip_address"]) or str(nic.subnet_mask) != str(pc.get("subnet_mask", "255.255.255.0")):
                    self.bad("router-port-differs", f"{when}: {hn} port {p} declared {pc}, built {getattr(nic, 'ip_address', None)}/{getattr(nic, 'subnet_mask', None)}")
        else:
            for key, idx in (("wireless_access_point", 1), ("router_interface", 2)):
                if key in c:
                    nic = node.network_interface.get(idx)
                    if str(nic.ip_address) != str(c[key]["ip_address"]) or str(nic.subnet_mask) != str(c[key]["subnet_mask"]):
                        self.bad("router-port-differs", f"{when}: {hn} {key} declared {c[key]}, built {nic.ip_address}/{nic.subnet_mask}")
        self.acl_table(when, hn, "acl", node.acl, c.get("acl"), defaults=True)
        self.routes(when, hn, c, node)

    def firewall(self, when: str, hn: str, c: Dict, node):
        for key, idx in (("external_port", 1), ("internal_port", 2), ("dmz_port", 3)):
            pc = (c.get("ports") or {}).get(key)
            if pc:
                nic = node.network_interface.get(idx)
                if str(nic.ip_address) != str(pc["ip_address"]) or str(nic.subnet_mask) != str(pc.get("subnet_mask", "255.255.255.0")):
                    self.bad("firewall-port-differs", f"{when}: {hn} {key} declared {pc}, built {nic.ip_address}/{nic.subnet_mask}")
        acls = c.get("acl") or {}
        for lname in ("internal_inbound", "internal_outbound", "dmz_inbound", "dmz_outbound", "external_inbound", "external_outbound"):
            self.acl_table(when, hn, lname, getattr(node, lname + "_acl"), acls.get(lname + "_acl"), defaults=False)
        self.routes(when, hn, c, node)
