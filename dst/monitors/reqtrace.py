"""Shared wrapper on RequestManager.__call__: for every top-level request records how it ended -
key-miss at depth d, validator refusal at depth d, or handler reached. Observes only."""
from __future__ import annotations

from typing import Any, Dict, List, Optional


def _continue(tr, cur, rm, request, context, orig):
    """Classify a pass-through continuation exactly like a top-level level, then execute it."""
    from primaite.simulator.core import RequestManager

    key = request[0] if request else None
    if key not in rm.request_types:
        cur["end"], cur["depth"] = "key-miss", tr.depth
    else:
        rt = rm.request_types[key]
        if not rt.validator(request[1:], context):
            cur["end"], cur["depth"] = "validator", tr.depth
            cur["validator"] = type(rt.validator).__name__
        elif not isinstance(rt.func, RequestManager):
            cur["handler"], cur["depth"] = True, tr.depth
            cur["rest"] = list(request[1:])
    return orig(rm, request, context)


class ReqTrace:
    def __init__(self):
        self.depth = 0
        self.current: Optional[Dict] = None
        self.last: Optional[Dict] = None
        self.history: List[Dict] = []
        self._orig = None

    def install(self):
        from primaite.simulator.core import RequestManager

        tr = self
        orig = RequestManager.__call__
        self._orig = orig

        def call(rm, request, context):
            top = tr.depth == 0
            if top:
                tr.current = {"request": request, "end": None, "depth": None, "handler": False, "nested": 0}
            tr.depth += 1
            try:
                cur = tr.current
                if cur is not None and cur["end"] is None and not cur["handler"]:
                    # classify this level exactly as RequestManager.__call__ will
                    key = request[0] if request else None
                    if key not in rm.request_types:
                        cur["end"], cur["depth"] = "key-miss", tr.depth
                    else:
                        rt = rm.request_types[key]
                        if not rt.validator(request[1:], context):
                            cur["end"], cur["depth"] = "validator", tr.depth
                            cur["validator"] = type(rt.validator).__name__
                        elif not isinstance(rt.func, RequestManager):
                            cur["handler"], cur["depth"] = True, tr.depth
                            cur["rest"] = list(request[1:])
                elif cur is not None and cur["handler"]:
                    if cur["end"] is None and cur.get("rest") is not None and list(request) == cur["rest"] and cur["rest"]:
                        # the 'handler' only passed the rest of the request on (component.apply_request registered as a
                        # route): this call continues the same path
                        cur["handler"] = False
                        cur["rest"] = None
                        return call(rm, request, context) if False else _continue(tr, cur, rm, request, context, orig)
                    cur["nested"] += 1  # requests issued by handlers (terminal commands, c2 ...)
                return orig(rm, request, context)
            finally:
                tr.depth -= 1
                if top:
                    tr.last = tr.current
                    tr.history.append(tr.current)
                    tr.current = None

        RequestManager.__call__ = call

    def uninstall(self):
        if self._orig is not None:
            from primaite.simulator.core import RequestManager

            RequestManager.__call__ = self._orig
            self._orig = None


def dry_run(rm, request: List, context: Optional[Dict] = None) -> bool:
    """Independent dry-run walker over the live request tree: key present at each level and every validator on the
    path (subtree guards included) passes."""
    from primaite.simulator.core import RequestManager

    context = context if context is not None else {}
    cur = rm
    req = list(request)
    while True:
        if not req:
            return False
        key = req[0]
        if key not in cur.request_types:
            return False
        rt = cur.request_types[key]
        if not rt.validator(req[1:], context):
            return False
        if isinstance(rt.func, RequestManager):
            cur, req = rt.func, req[1:]
            continue
        owner = getattr(rt.func, "__self__", None)
        if getattr(rt.func, "__name__", "") == "apply_request" and owner is not None and hasattr(owner, "_request_manager") and len(req) > 1:
            # a component's apply_request registered as the route: the path continues in that component's manager
            cur, req = owner._request_manager, req[1:]
            continue
        return True
