"""Monitors: invariants evaluated after every op and, through wrappers on public methods, at the instant of an event.
A wrapper only observes; it never changes a return value (the lossy-link *fault* is not a monitor)."""
from __future__ import annotations

import importlib
from typing import Any, Dict, List


class Monitor:
    name = "base"
    prop = "C00"

    def __init__(self, run):
        self._patches: List = []
        self.counters: Dict[str, int] = {}

    def count(self, k: str, n: int = 1):
        self.counters[k] = self.counters.get(k, 0) + n

    # wrappers -------------------------------------------------------------------------------------------------
    def patch(self, owner: Any, attr: str, make_wrapper):
        """Replace owner.attr by make_wrapper(original); a missing attribute is a harness error, not a pass."""
        if not hasattr(owner, attr):
            raise RuntimeError(f"monitor {self.name}: wrapper target missing: {owner}.{attr}")
        orig = owner.__dict__.get(attr, getattr(owner, attr))
        setattr(owner, attr, make_wrapper(getattr(owner, attr)))
        self._patches.append((owner, attr, orig))

    def install(self, run):
        pass

    def uninstall(self, run):
        for owner, attr, orig in reversed(self._patches):
            try:
                setattr(owner, attr, orig)
            except Exception:
                pass
        self._patches = []

    # hooks ----------------------------------------------------------------------------------------------------
    def after_build(self, run):
        pass

    def before_step(self, run, action):
        pass

    def after_step(self, run, action, ret):
        pass

    def on_step_exception(self, run, action, exc):
        pass

    def before_reset(self, run, seed):
        pass

    def after_reset(self, run, seed, ret):
        pass

    def before_req(self, run, req, label):
        pass

    def after_req(self, run, req, label, resp):
        pass

    def before_tick(self, run):
        pass

    def mid_tick(self, run):
        pass

    def after_tick(self, run):
        pass

    def end(self, run):
        pass

    def stats(self) -> Dict:
        return dict(self.counters)


REGISTRY = {
    "c01": "dst.monitors.c01:C01Monitor",
    "c02": "dst.monitors.c02:C02Monitor",
    "c18": "dst.monitors.c18:C18Monitor",
    "c11": "dst.monitors.c11:C11Monitor",
    "c09": "dst.monitors.c09:C09Monitor",
    "c10": "dst.monitors.c10:C10Monitor",
    "c19": "dst.monitors.c19:C19Monitor",
    "c07": "dst.monitors.c07:C07Monitor",
    "c20": "dst.monitors.c20:C20Monitor",
    "c06": "dst.monitors.c06:C06Monitor",
}


def make_monitors(names: List[str], run) -> List[Monitor]:
    out = []
    for n in names:
        mod, _, cls = REGISTRY[n].partition(":")
        out.append(getattr(importlib.import_module(mod), cls)(run))
    return out
