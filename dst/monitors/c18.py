"""C18 - link load <= bandwidth at every transmission and at the end of every tick; loads reset to 0; nothing crosses a
link unless both end interfaces are enabled; wireless channel load <= channel capacity."""
from __future__ import annotations

from dst.core import Violation
from dst.monitors import Monitor


class C18Monitor(Monitor):
    name = "c18"
    prop = "C18"

    def __init__(self, run):
        super().__init__(run)
        self.depth = 0
        self.pending = None
        self.run = run

    def install(self, run):
        from primaite.simulator.network.airspace import AirSpace
        from primaite.simulator.network.hardware.base import Link

        mon = self

        def wrap_transmit(orig):
            def transmit_frame(link, sender_nic, frame):
                up_at_entry = bool(link.endpoint_a.enabled and link.endpoint_b.enabled)
                load_at_entry = link.current_load
                if not up_at_entry:
                    # the observation point of "nothing crosses a link unless both end interfaces are enabled": a frame
                    # is being put on a link that is not up (the far end will refuse it, the sender has already counted it)
                    mon.pending = mon.pending or Violation("C18", "frame-crossed-down-link", f"a frame was put on {link} for transmission while an end interface was disabled", sig="frame-crossed-down-link:attempt", detail={})
                mon.depth += 1
                if mon.depth > 1:
                    mon.count("nested_transmissions")
                    run.probe("c18_nested_exchange")
                try:
                    ok = orig(link, sender_nic, frame)
                finally:
                    mon.depth -= 1
                mon.count("transmissions")
                if not up_at_entry and link.current_load > load_at_entry:
                    # whatever the far end did with it: a frame was put on a link that is not up (its load went up)
                    mon.pending = mon.pending or Violation("C18", "frame-crossed-down-link", f"a frame was put on {link} while an end interface was disabled (load {load_at_entry!r} -> {link.current_load!r})", sig="frame-crossed-down-link:load", detail={})
                if ok and not up_at_entry:
                    mon.pending = Violation("C18", "frame-crossed-down-link", f"frame delivered over {link} while an end interface was disabled", sig="frame-crossed-down-link", detail={})
                if link.current_load > link.bandwidth:
                    tight = link.bandwidth < 1.0
                    mon.pending = mon.pending or Violation(
                        "C18",
                        "load-exceeds-bandwidth",
                        f"after a transmission link load {link.current_load!r} > bandwidth {link.bandwidth!r} (frame {frame.size_Mbits!r} Mbit, nesting depth {mon.depth})",
                        sig="load-exceeds-bandwidth:wired",
                        detail={"load": link.current_load, "bandwidth": link.bandwidth, "frame_mbits": frame.size_Mbits, "tight": tight},
                    )
                if link.current_load >= 0.5 * link.bandwidth:
                    run.probe("c18_link_half_full")
                return ok

            return transmit_frame

        def wrap_can(orig):
            def can_transmit_frame(link, frame):
                res = orig(link, frame)
                if not res and link.endpoint_a.enabled and link.endpoint_b.enabled:
                    run.probe("c18_link_refused_frame")
                return res

            return can_transmit_frame

        def wrap_pre(orig):
            def pre_timestep(link, timestep):
                res = orig(link, timestep)
                if link.current_load != 0:
                    mon.pending = mon.pending or Violation("C18", "load-not-reset", f"link load {link.current_load!r} after per-tick reset", sig="load-not-reset:wired", detail={})
                mon.count("resets_checked")
                return res

            return pre_timestep

        def wrap_air(orig):
            def transmit(air, frame, sender_network_interface):
                res = orig(air, frame, sender_network_interface)
                f = sender_network_interface.frequency
                load = air.bandwidth_load.get(f.frequency_hz, 0.0)
                cap = air.get_frequency_max_capacity_mbps(f.name)
                mon.count("air_transmissions")
                run.probe("c18_air_transmission")
                if load > cap:
                    mon.pending = mon.pending or Violation("C18", "load-exceeds-bandwidth", f"wireless channel {f.name} load {load!r} > capacity {cap!r}", sig="load-exceeds-bandwidth:wireless", detail={"load": load, "capacity": cap})
                return res

            return transmit

        def wrap_air_can(orig):
            def can_transmit_frame(air, frame, sender_network_interface):
                res = orig(air, frame, sender_network_interface)
                if not res:
                    run.probe("c18_air_refused_frame")
                return res

            return can_transmit_frame

        def wrap_net_pre(orig):
            def pre_timestep(net, timestep):
                res = orig(net, timestep)
                # every cabled link starts the tick empty - whatever the network's own bookkeeping of its links says
                for link in net.links.values():
                    if link.current_load != 0:
                        mon.pending = mon.pending or Violation("C18", "load-not-reset", f"link {link} starts the tick with load {link.current_load!r}", sig="load-not-reset:network", detail={})
                mon.count("network_resets_checked")
                return res

            return pre_timestep

        from primaite.simulator.network.container import Network

        self.patch(Network, "pre_timestep", wrap_net_pre)
        self.patch(AirSpace, "can_transmit_frame", wrap_air_can)
        self.patch(Link, "transmit_frame", wrap_transmit)
        self.patch(Link, "can_transmit_frame", wrap_can)
        self.patch(Link, "pre_timestep", wrap_pre)
        self.patch(AirSpace, "transmit", wrap_air)

    def _raise_pending(self):
        if self.pending is not None:
            v, self.pending = self.pending, None
            raise v

    def _end_of_tick(self, run):
        self._raise_pending()
        net = run.env.game.simulation.network if getattr(run, "env", None) is not None else run.network
        for link in net.links.values():
            if link.current_load > link.bandwidth:
                raise Violation("C18", "load-exceeds-bandwidth", f"end of tick: link load {link.current_load!r} > bandwidth {link.bandwidth!r}", sig="load-exceeds-bandwidth:wired", detail={})
        self.count("end_of_tick_checks")

    def after_step(self, run, action, ret):
        self._end_of_tick(run)

    def mid_tick(self, run):
        self._end_of_tick(run)

    def after_tick(self, run):
        self._raise_pending()

    def after_reset(self, run, seed, ret):
        self._raise_pending()

    def after_req(self, run, req, label, resp):
        self._raise_pending()

    def on_step_exception(self, run, action, exc):
        self._raise_pending()
