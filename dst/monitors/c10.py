"""C10 - reward = weighted sum of components; shared rewards use same-step values; totals add up.

Reference implementations of the seven shipped components, written from docs/source/rewards.rst and the component
docstrings, evaluated on post-step ground truth read from simulator objects and on the agent's own latest history item;
sticky memory is kept by the reference. Shared components are resolved by recomputing the *other* agent's reward of the
same step (recursively), never by reading it back."""
from __future__ import annotations

from typing import Any, Dict, List, Optional

from dst.core import Violation, jsonable
from dst.monitors import Monitor

TOL = 1e-9


class RefReward:
    def __init__(self, agent_cfg: Dict):
        self.ref = agent_cfg["ref"]
        self.components = []
        self.flags = set()
        for c in (agent_cfg.get("reward_function") or {}).get("reward_components", []) or []:
            self.components.append({"type": c["type"], "weight": c.get("weight", 1.0), "options": dict(c.get("options") or {}), "memory": 0.0})

    def value(self, comp: Dict, net, item, others) -> float:
        t, o = comp["type"], comp["options"]
        if t == "dummy":
            return 0.0
        if t == "database-file-integrity":
            node = net.get_node_by_hostname(o["node_hostname"])
            f = node.file_system.get_file(o["folder_name"], o["file_name"]) if node is not None and hasattr(node, "file_system") else None
            if f is None:
                return 0.0
            return {2: -1.0, 1: 1.0}.get(f.health_status.value, 0.0)
        if t == "web-server-404-penalty":
            node = net.get_node_by_hostname(o["node_hostname"])
            svc = node.software_manager.software.get(o["service_name"]) if node is not None else None
            if svc is None or not hasattr(svc, "response_codes_this_timestep"):
                return 0.0 if True else comp["memory"]
            codes = [c.value for c in svc.response_codes_this_timestep]
            if codes:
                self.flags.add("c10_web_codes")
                if any(c not in (200, 404) for c in codes):
                    self.flags.add("c10_web_code_other_than_200_404")
                if any(c == 404 for c in codes):
                    self.flags.add("c10_web_code_404")
                comp["memory"] = sum(1.0 if c == 200 else -1.0 if c == 404 else 0.0 for c in codes) / len(codes)
            elif not o.get("sticky", True):
                comp["memory"] = 0.0
            return comp["memory"]
        if t == "webpage-unavailable-penalty":
            hn = o.get("node_hostname", "")
            node = net.get_node_by_hostname(hn)
            browser = node.software_manager.software.get("web-browser") if node is not None else None
            attempted = jsonable(item.request) == ["network", "node", hn, "application", "web-browser", "execute"]
            if browser is None:
                comp["memory"] = 0.0
            if not attempted:
                if not o.get("sticky", True):
                    comp["memory"] = 0.0
                return comp["memory"]
            if item.response.status != "success":
                comp["memory"] = -1.0
            elif browser is None or not browser.history:
                comp["memory"] = 0.0
            else:
                outcome = browser.history[-1].state()["outcome"]
                comp["memory"] = 0.0 if outcome == "PENDING" else 1.0 if outcome == 200 else -1.0
            return comp["memory"]
        if t == "green-admin-database-unreachable-penalty":
            hn = o["node_hostname"]
            attempted = jsonable(item.request) == ["network", "node", hn, "application", "database-client", "execute"]
            if attempted:
                comp["memory"] = 1.0 if item.response.status == "success" else -1.0
            elif not o.get("sticky", True):
                comp["memory"] = 0.0
            return comp["memory"]
        if t == "action-penalty":
            return float(o.get("do_nothing_penalty", 0.0)) if item.action == "do-nothing" else float(o.get("action_penalty", -1.0))
        if t == "shared-reward":
            return others(o["agent_name"])
        raise NotImplementedError(t)


class C10Monitor(Monitor):
    name = "c10"
    prop = "C10"

    def __init__(self, run):
        super().__init__(run)
        self.refs: Dict[str, RefReward] = {}
        self.totals: Dict[str, float] = {}

    def new_episode(self, run):
        try:
            cfg = run.env.episode_scheduler(run.env.episode_counter)
        except Exception:
            cfg = run.scenario
        self.refs = {a["ref"]: RefReward(a) for a in cfg.get("agents", [])}
        self.totals = {k: 0.0 for k in self.refs}

    def after_build(self, run):
        self.new_episode(run)

    def after_reset(self, run, seed, ret):
        self.new_episode(run)

    def after_step(self, run, action, ret):
        game = run.env.game
        net = game.simulation.network
        cache: Dict[str, float] = {}
        detail: Dict[str, Any] = {}
        visiting: List[str] = []

        def reward_of(name: str) -> float:
            if name in cache:
                return cache[name]
            if name in visiting:
                raise Violation("C10", "cyclic-sharing-loaded", f"reward sharing cycle through {visiting + [name]} was accepted at load", sig="cyclic-sharing-loaded", detail={})
            visiting.append(name)
            ref = self.refs[name]
            item = game.agents[name].history[-1]
            total = 0.0
            parts = []
            for comp in ref.components:
                v = ref.value(comp, net, item, reward_of)
                parts.append([comp["type"], comp["weight"], v])
                total += comp["weight"] * v
            visiting.pop()
            cache[name] = total
            detail[name] = parts
            return total

        for name in self.refs:
            exp = reward_of(name)
            for fl in self.refs[name].flags:
                run.probe(fl)
            self.refs[name].flags.clear()
        for name, agent in game.agents.items():
            exp = cache[name]
            got = agent.reward_function.current_reward
            kinds = sorted({p[0] for p in detail[name]})
            if abs(got - exp) > TOL:
                # which component disagrees? (for the signature)
                comp_kinds = []
                for (comp, w), p in zip(agent.reward_function.reward_components, detail[name]):
                    pass
                shared = any(p[0] == "shared-reward" for p in detail[name])
                raise Violation(
                    "C10",
                    "reward-not-weighted-sum",
                    f"agent {name}: current_reward {got!r} != recomputed weighted sum {exp!r}; components (type, weight, value): {detail[name]}; last action {game.agents[name].history[-1].action} -> {game.agents[name].history[-1].response.status}",
                    sig="reward-not-weighted-sum:" + ("shared" if shared else "+".join(kinds)),
                    detail={"agent": name, "components": jsonable(detail[name]), "got": got, "expected": exp, "order": list(game.agents), "reward_order": list(game._reward_calculation_order)},
                )
            if any(p[0] == "shared-reward" and abs(p[2]) > 0 for p in detail[name]):
                run.probe("c10_nonzero_shared_reward")
            if abs(exp) > 0:
                run.probe("c10_nonzero_reward")
            self.totals[name] += exp
            if abs(agent.reward_function.total_reward - self.totals[name]) > 1e-7:
                raise Violation("C10", "total-not-sum-of-steps", f"agent {name}: total_reward {agent.reward_function.total_reward!r} != sum of step rewards {self.totals[name]!r}", sig="total-not-sum-of-steps", detail={"agent": name})
            h = agent.history[-1].reward
            if h is None or abs(h - exp) > TOL:
                raise Violation("C10", "history-reward-mismatch", f"agent {name}: history item reward {h!r} != step reward {exp!r}", sig="history-reward-mismatch", detail={"agent": name})
        rl = run.env._agent_name
        if abs(float(ret[1]) - cache[rl]) > TOL:
            raise Violation("C10", "env-reward-not-agents", f"env.step returned reward {ret[1]!r}, the RL agent's step reward is {cache[rl]!r}", sig="env-reward-not-agents", detail={})
        self.count("agent_rewards_checked", len(cache))
