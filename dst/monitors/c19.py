"""C19 - scripted green/red agents act only when and how their settings allow (history oracles, E1)."""
from __future__ import annotations

from typing import Any, Dict, List, Optional

from dst.core import Violation, jsonable
from dst.monitors import Monitor

TERMINAL = {"SUCCEEDED", "FAILED"}


class C19Monitor(Monitor):
    name = "c19"
    prop = "C19"

    def __init__(self, run):
        super().__init__(run)
        self.cfg: Dict[str, Dict] = {}
        self.acts: Dict[str, List[int]] = {}
        self.stage: Dict[str, Any] = {}
        self.concluded_at: Dict[str, int] = {}

    def new_episode(self, run):
        try:
            cfg = run.env.episode_scheduler(run.env.episode_counter)
        except Exception:
            cfg = run.scenario
        self.cfg = {a["ref"]: a for a in cfg.get("agents", [])}
        self.acts = {k: [] for k in self.cfg}
        self.stage = {}
        self.concluded_at = {}
        self.exec_ts = {}
        self.progress = {}
        for name, agent in run.env.game.agents.items():
            if hasattr(agent, "current_kill_chain_stage"):
                self.stage[name] = agent.current_kill_chain_stage
                self.exec_ts[name] = getattr(agent, "current_timestep", 0)
                self.progress[name] = getattr(getattr(agent, "current_stage_progress", None), "name", None)

    def after_build(self, run):
        self.new_episode(run)

    def after_reset(self, run, seed, ret):
        self.new_episode(run)

    def bad(self, clause, name, msg, sig_extra="", **detail):
        a = self.cfg.get(name, {})
        raise Violation("C19", clause, f"agent {name} ({a.get('type')}): {msg}; settings {jsonable(a.get('agent_settings'))}", sig=f"{clause}:{a.get('type')}" + (f":{sig_extra}" if sig_extra else ""), detail={"agent": name, "type": a.get("type"), "settings": jsonable(a.get("agent_settings")), **detail})

    def after_step(self, run, action, ret):
        game = run.env.game
        for name, agent in game.agents.items():
            a = self.cfg.get(name)
            if a is None:
                continue
            t = a.get("type")
            item = agent.history[-1]
            tick = item.timestep
            s = a.get("agent_settings") or {}
            acted = item.action != "do-nothing"
            if t in ("periodic-agent", "red-database-corrupting-agent"):
                start = s.get("start_step", 5)
                sv = s.get("start_variance", 0) if t == "periodic-agent" else 0
                freq, var = s.get("frequency", 5), s.get("variance", 0)
                if acted:
                    prev = self.acts[name]
                    if not prev:
                        if tick < start - sv:
                            self.bad("acted-before-start", name, f"first action at tick {tick}, configured start {start} +- {sv}")
                        if t == "periodic-agent" and tick > start + sv:
                            self.bad("first-action-after-start-window", name, f"first action at tick {tick}, configured start {start} +- {sv}")
                        run.probe("c19_periodic_first_action")
                    else:
                        gap = tick - prev[-1]
                        if gap < freq - var:
                            self.bad("gap-below-frequency-minus-variance", name, f"actions at ticks {prev[-1]} and {tick}: gap {gap} < {freq}-{var}")
                        if t == "periodic-agent" and gap > freq + var:
                            self.bad("gap-above-frequency-plus-variance", name, f"actions at ticks {prev[-1]} and {tick}: gap {gap} > {freq}+{var}")
                        run.probe("c19_periodic_gap_checked")
                    prev.append(tick)
                    if item.action != "node-application-execute" or item.parameters.get("application_name") != s.get("target_application", "data-manipulation-bot"):
                        self.bad("action-not-configured", name, f"performed {item.action} {item.parameters}")
                    if item.parameters.get("node_name") not in (s.get("possible_start_nodes") or []):
                        self.bad("node-not-a-start-node", name, f"acted from {item.parameters.get('node_name')}")
                    if len(self.acts[name]) > 1 and item.parameters.get("node_name") != self._first_node.get(name):
                        self.bad("start-node-changed", name, f"acted from {item.parameters.get('node_name')} after {self._first_node.get(name)}")
                    if len(self.acts[name]) == 1:
                        self._first_node = getattr(self, "_first_node", {})
                        self._first_node[name] = item.parameters.get("node_name")
                    mx = s.get("max_executions")
                    if mx is not None and len(self.acts[name]) > mx:
                        self.bad("more-than-max-executions", name, f"{len(self.acts[name])} executions, max_executions {mx}")
            elif t == "probabilistic-agent":
                probs = s.get("action_probabilities") or {}
                amap = (a.get("action_space") or {}).get("action_map") or {}
                # which configured entries have probability zero?
                zero = [amap[k] for k, p in probs.items() if p == 0 and k in amap]
                nonzero = [amap[k] for k, p in probs.items() if p != 0 and k in amap]
                chosen = {"action": item.action, "options": jsonable(item.parameters)}
                def same(e):
                    return e["action"] == chosen["action"] and jsonable(e.get("options") or {}) == chosen["options"]
                if any(same(e) for e in zero) and not any(same(e) for e in nonzero):
                    self.bad("zero-probability-action-selected", name, f"selected {item.action} {item.parameters} which has probability 0", keys_in_order=list(probs) == sorted(probs))
                if not any(same(e) for e in amap.values()):
                    self.bad("action-not-in-action-map", name, f"selected {item.action} {item.parameters}")
                if zero:
                    run.probe("c19_probabilistic_with_zero_entry")
            elif hasattr(agent, "current_kill_chain_stage"):
                start = s.get("start_step", 5)
                freq, var = s.get("frequency", 5), s.get("variance", 0)
                if acted:
                    prev = self.acts[name]
                    if not prev and tick < start - var:
                        self.bad("acted-before-start", name, f"first action at tick {tick}, configured start {start} +- {var}")
                    if prev and tick - prev[-1] < freq - var:
                        self.bad("gap-below-frequency-minus-variance", name, f"actions at ticks {prev[-1]} and {tick}: gap {tick - prev[-1]} < {freq}-{var}")
                    prev.append(tick)
                    if name in self.concluded_at and not s.get("repeat_kill_chain", False):
                        self.bad("acted-after-kill-chain-ended", name, f"action {item.action} at tick {tick} after the chain ended at tick {self.concluded_at[name]}")
                old, new = self.stage.get(name), agent.current_kill_chain_stage
                # the documented mechanism: a stage is only entered after the previous action came back "success";
                # the agent's own bookkeeping names the step of that previous action (current_timestep before this step)
                prev_exec, cur_exec = self.exec_ts.get(name), getattr(agent, "current_timestep", None)
                self.exec_ts[name] = cur_exec
                prev_progress = self.progress.get(name)
                self.progress[name] = getattr(getattr(agent, "current_stage_progress", None), "name", None)
                if old is not None and prev_exec is not None and cur_exec != prev_exec and prev_exec < len(agent.history) - 1:
                    status = agent.history[prev_exec].response.status
                    if status != "success":
                        run.probe("c19_tap_previous_action_unsuccessful")
                        if status != "failure":
                            run.probe("c19_tap_previous_action_unreachable")
                        # the documented reaction to an unsuccessful action (stage repetition on): the same action is
                        # tried again. Exempt by design: PROPAGATE; PAYLOAD while the stage is IN_PROGRESS and
                        # continue_on_failed_exfil is set (TAP001); PLANNING (TAP003)
                        kc = (s.get("kill_chain") or {})
                        cont = bool((kc.get("PAYLOAD") or {}).get("continue_on_failed_exfil", True))
                        exempt = old.name in ("PROPAGATE", "PLANNING", "NOT_STARTED") or old.name in TERMINAL or (old.name == "PAYLOAD" and prev_progress == "IN_PROGRESS" and cont)
                        if not exempt and s.get("repeat_kill_chain_stages", True) is not False and prev_progress is not None:
                            before, now = agent.history[prev_exec], agent.history[-1]
                            run.probe("c19_tap_retry_checked")
                            if (now.action, jsonable(now.parameters)) != (before.action, jsonable(before.parameters)):
                                self.bad("unsuccessful-action-not-retried", name, f"the action {before.action} of tick {prev_exec} (stage {old.name}, progress {prev_progress}) came back {status!r}; at the next execution step (tick {tick}) the agent chose {now.action} {jsonable(now.parameters)} instead of trying it again", sig_extra=old.name)
                        # PROPAGATE / PAYLOAD (TAP001) and PLANNING (TAP003) handle an unsuccessful action themselves
                        if old.name not in ("PROPAGATE", "PAYLOAD", "PLANNING", "NOT_STARTED") and old.name not in TERMINAL:
                            if new.name not in TERMINAL and new.name != "NOT_STARTED" and int(new) > int(old):
                                self.bad("stage-advanced-after-unsuccessful-action", name, f"stage went {old.name} -> {new.name} at tick {tick} although the previous action {agent.history[prev_exec].action} (tick {prev_exec}) came back {status!r}", sig_extra=str(status))
                            if new.name == "SUCCEEDED":
                                self.bad("stage-advanced-after-unsuccessful-action", name, f"kill chain SUCCEEDED at tick {tick} although the previous action (tick {prev_exec}) came back {status!r}", sig_extra=str(status))
                            if s.get("repeat_kill_chain_stages") is False and new.name not in ("FAILED", "NOT_STARTED") and not (s.get("repeat_kill_chain") and int(new) == 1):
                                self.bad("no-failure-after-unsuccessful-action", name, f"repeat_kill_chain_stages is off, the previous action (tick {prev_exec}) came back {status!r}, yet the stage is {new.name} at tick {tick}", sig_extra=str(status))
                # a stage whose configured probability is 0 is never passed
                # (the stages documented as "performs a trial using the given stage probability"; TAP001's DOWNLOAD, INSTALL
                # and ACTIVATE are documented as having no probability)
                trialled = {"PROPAGATE", "COMMAND_AND_CONTROL", "PAYLOAD", "PLANNING", "ACCESS", "MANIPULATION", "EXPLOIT"}
                blocked = [k for k, o in (s.get("kill_chain") or {}).items() if isinstance(o, dict) and o.get("probability") == 0 and k in type(new).__members__ and k in trialled]
                if blocked:
                    run.probe("c19_tap_stage_with_probability_zero")
                    first = min(int(type(new)[k]) for k in blocked)
                    if new.name == "SUCCEEDED" or (new.name not in TERMINAL and new.name != "NOT_STARTED" and int(new) > first):
                        self.bad("stage-with-probability-zero-passed", name, f"stage {type(new)(first).name} has probability 0, yet the agent is at {new.name} (tick {tick})", sig_extra=type(new)(first).name)
                if old is not None and new != old:
                    run.probe("c19_kill_chain_stage_changed")
                    on, nn = old.name, new.name
                    ok = False
                    if on == "NOT_STARTED":
                        ok = int(new) == 1
                    elif on in TERMINAL:
                        # a restart (only with repeat_kill_chain) may already have entered the first stage in this step
                        ok = (nn == "NOT_STARTED" or int(new) == 1) and s.get("repeat_kill_chain", False)
                    elif nn == "FAILED":
                        ok = True
                    elif nn == "SUCCEEDED":
                        # the last stage the agent implements = the last one it has options for (TAP003's enumeration
                        # lists further, not yet implemented stages after EXPLOIT)
                        names = [k for k in (s.get("kill_chain") or {}) if k in type(new).__members__]
                        last = max([int(type(new)[k]) for k in names] or [max(int(m) for m in type(new) if int(m) < 100)])
                        ok = int(old) == last
                    elif nn == "NOT_STARTED":
                        # failing a stage (repeat_kill_chain_stages off) and restarting the chain (repeat_kill_chain on)
                        # both happen inside one step: FAILED is passed through without being observable
                        ok = bool(s.get("repeat_kill_chain", False))
                    else:
                        ok = int(new) == int(old) + 1
                    if not ok:
                        self.bad("kill-chain-stage-order", name, f"stage went {on} -> {nn}", sig_extra=f"{on}->{nn}")
                    if nn in TERMINAL and not s.get("repeat_kill_chain", False):
                        self.concluded_at[name] = tick
                        run.probe("c19_kill_chain_ended")
                self.stage[name] = new
        self.count("steps_checked")
