"""C06 passive monitor: a frame that a router or firewall has decided to deny is never forwarded by it nor handed to its
own software. Wrappers: AccessControlList.is_permitted (records the frame object and the deciding list when the verdict
is DENY), the interfaces' send_frame and SessionManager.receive_frame (a recorded frame must not appear there on the
device that owns the denying list). Frame objects are kept alive until the op ends, so identity is unambiguous."""
from __future__ import annotations

from typing import Any, Dict

from dst.core import Violation
from dst.monitors import Monitor

LISTS = ("acl", "internal_inbound_acl", "internal_outbound_acl", "dmz_inbound_acl", "dmz_outbound_acl", "external_inbound_acl", "external_outbound_acl")


class C06Monitor(Monitor):
    name = "c06"
    prop = "C06"

    def __init__(self, run):
        super().__init__(run)
        self.pending = None
        self.owner: Dict[int, Any] = {}  # id(acl) -> (node, list name); acl objects live as long as their node
        self.denied: Dict[int, Any] = {}  # id(frame) -> (frame, node, list name)

    def register(self, network):
        for node in network.nodes.values():
            for name in LISTS:
                acl = getattr(node, name, None)
                if acl is not None and hasattr(acl, "is_permitted"):
                    self.owner[id(acl)] = (node, name, acl)

    def networks(self, run):
        nets = []
        if getattr(run, "env", None) is not None:
            nets.append(run.env.game.simulation.network)
        elif getattr(run, "network", None) is not None:
            nets.append(run.network)
        if getattr(run, "twin", None) is not None:
            nets.append(run.twin.simulation.network)
        return nets

    def install(self, run):
        from primaite.simulator.network.airspace import WirelessNetworkInterface
        from primaite.simulator.network.hardware.base import WiredNetworkInterface
        from primaite.simulator.network.hardware.nodes.network.router import AccessControlList
        from primaite.simulator.system.core.session_manager import SessionManager

        mon = self

        def wrap_permitted(orig):
            def is_permitted(acl, frame):
                permitted, rule = orig(acl, frame)
                if not permitted:
                    own = mon.owner.get(id(acl))
                    if own is not None and own[2] is acl:
                        mon.denied[id(frame)] = (frame, own[0], own[1])
                        run.probe("c06_frame_denied_by_device")
                return permitted, rule

            return is_permitted

        def wrap_send(orig):
            def send_frame(iface, frame):
                rec = mon.denied.get(id(frame))
                if rec is not None and rec[0] is frame and getattr(iface, "_connected_node", None) is rec[1]:
                    mon.pending = mon.pending or Violation(
                        "C06",
                        "denied-frame-forwarded",
                        f"{rec[1].config.hostname} denied a frame in its list {rec[2]} and then sent it out of interface {getattr(iface, 'port_num', '?')}: {mon.describe(frame)}",
                        sig=f"denied-frame-forwarded:{rec[1].__class__.__name__}:{rec[2]}",
                        detail={"frame": mon.describe(frame)},
                    )
                return orig(iface, frame)

            return send_frame

        def wrap_session(orig):
            def receive_frame(sm, frame, from_network_interface):
                rec = mon.denied.get(id(frame))
                if rec is not None and rec[0] is frame and getattr(sm, "node", None) is rec[1]:
                    mon.pending = mon.pending or Violation(
                        "C06",
                        "denied-frame-handed-to-own-software",
                        f"{rec[1].config.hostname} denied a frame in its list {rec[2]} and then handed it to its own session manager: {mon.describe(frame)}",
                        sig=f"denied-frame-handed-to-own-software:{rec[1].__class__.__name__}:{rec[2]}",
                        detail={"frame": mon.describe(frame)},
                    )
                return orig(sm, frame, from_network_interface)

            return receive_frame

        self.patch(AccessControlList, "is_permitted", wrap_permitted)
        self.patch(WiredNetworkInterface, "send_frame", wrap_send)
        self.patch(WirelessNetworkInterface, "send_frame", wrap_send)
        self.patch(SessionManager, "receive_frame", wrap_session)

    @staticmethod
    def describe(frame) -> str:
        ip = getattr(frame, "ip", None)
        proto = getattr(ip, "protocol", None)
        port = getattr(getattr(frame, "tcp", None) or getattr(frame, "udp", None), "dst_port", None)
        return f"{getattr(ip, 'src_ip_address', '?')} -> {getattr(ip, 'dst_ip_address', '?')} {proto}{'/' + str(port) if port is not None else ''}"

    def after_build(self, run):
        for net in self.networks(run):
            self.register(net)

    def after_reset(self, run, seed, ret):
        self.owner.clear()
        self.denied.clear()
        for net in self.networks(run):
            self.register(net)
        self._raise()

    def _raise(self):
        self.denied.clear()
        if self.pending is not None:
            v, self.pending = self.pending, None
            raise v

    def after_step(self, run, action, ret):
        self._raise()

    def after_req(self, run, req, label, resp):
        self._raise()

    def after_tick(self, run):
        self._raise()

    def on_step_exception(self, run, action, exc):
        self._raise()

    def end(self, run):
        self._raise()
