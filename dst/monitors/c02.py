"""C02 - every observation returned by reset/step is a member of the declared space; the spaces are stable across
episodes of a constant scenario."""
from __future__ import annotations

import re
from typing import Any, List, Optional, Tuple

from dst.core import Violation, jsonable
from dst.monitors import Monitor


def first_mismatch(space, obs, path: Tuple = ()) -> Optional[Tuple[Tuple, str]]:
    """Locate the first leaf of obs that is not in its space; returns (path, reason)."""
    from gymnasium import spaces

    if isinstance(space, spaces.Dict):
        if not isinstance(obs, dict):
            return path, f"expected dict, got {type(obs).__name__}"
        sk, ok = set(space.spaces.keys()), set(obs.keys())
        if sk != ok:
            return path, f"keys differ: missing {sorted(map(str, sk - ok))}, extra {sorted(map(str, ok - sk))}"
        for k, sub in space.spaces.items():
            r = first_mismatch(sub, obs[k], path + (k,))
            if r:
                return r
        return None
    if not space.contains(obs):
        return path, f"value {obs!r} ({type(obs).__name__}) not in {space}"
    return None


def abstract_path(path: Tuple) -> str:
    """Leaf kind: slot numbers / host indices / port numbers are abstracted so that one defect has one signature."""
    out = []
    for p in path:
        s = str(p)
        s = re.sub(r"\d+", "#", s)
        out.append(s)
    return ".".join(out)


class C02Monitor(Monitor):
    name = "c02"
    prop = "C02"

    def __init__(self, run):
        super().__init__(run)
        self.first_obs_space = None
        self.first_act_space = None
        self.max_seen = {}

    def _check(self, run, obs, when: str):
        env = run.env
        agent = env.agent
        nested_space = agent.observation_manager.space
        nested_obs = agent.observation_manager.current_observation
        mm = first_mismatch(nested_space, nested_obs)
        if mm:
            path, reason = mm
            raise Violation(
                "C02",
                "obs-not-in-space",
                f"{when}: observation leaf {'.'.join(map(str, path))}: {reason}",
                sig=f"obs-not-in-space:{abstract_path(path)}",
                detail={"path": [str(p) for p in path], "reason": reason, "flatten": agent.flatten_obs},
            )
        space = env.observation_space
        if obs is not None and not space.contains(obs):
            raise Violation("C02", "returned-obs-not-in-space", f"{when}: returned observation not in env.observation_space ({'flattened' if agent.flatten_obs else 'nested'})", sig=f"returned-obs-not-in-space:{'flat' if agent.flatten_obs else 'nested'}", detail={})
        self.count("obs_checked")
        self._track(nested_obs)

    def _track(self, obs, key=""):
        if isinstance(obs, dict):
            for k, v in obs.items():
                self._track(v, abstract_path((key, k)) if key else abstract_path((k,)))
        elif isinstance(obs, (int,)) or hasattr(obs, "item"):
            k = key.split(".")[-1]
            try:
                v = int(obs)
            except Exception:
                return
            if v > self.max_seen.get(k, -1):
                self.max_seen[k] = v

    def _spaces(self, run):
        env = run.env
        o, a = env.observation_space, env.action_space
        if self.first_obs_space is None:
            self.first_obs_space, self.first_act_space = o, a
            return
        if o != self.first_obs_space:
            raise Violation("C02", "obs-space-changed", "observation_space differs from the first episode's", sig="obs-space-changed", detail={})
        if a != self.first_act_space:
            raise Violation("C02", "action-space-changed", "action_space differs from the first episode's", sig="action-space-changed", detail={})
        self.count("space_stability_checked")

    def after_build(self, run):
        self._spaces(run)

    def after_step(self, run, action, ret):
        self._check(run, ret[0], "step")

    def on_step_exception(self, run, action, exc):
        # flattening an out-of-space observation raises inside env.step: attribute it to the leaf
        try:
            self._check(run, None, "step (raised while flattening)")
        except Violation:
            raise
        except Exception:
            return

    def after_reset(self, run, seed, ret):
        self._spaces(run)
        self._check(run, ret[0], "reset")

    def stats(self):
        return {**self.counters, "max_leaf_value_seen": dict(sorted(self.max_seen.items()))}
