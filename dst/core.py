"""Shared run-side pieces: violations, canonicalisation of opaque identifiers, digests, JSON conversion."""
from __future__ import annotations

import hashlib
import json
import re
import traceback
from typing import Any, Dict, List, Optional


class Violation(Exception):
    """A property violation observed by a monitor (never used for harness errors)."""

    def __init__(self, prop: str, clause: str, msg: str, sig: str, detail: Optional[Dict] = None):
        super().__init__(f"{prop}/{clause}: {msg}")
        self.prop = prop
        self.clause = clause
        self.msg = msg
        self.sig = sig
        self.detail = detail or {}

    def to_json(self) -> Dict:
        return {"property": self.prop, "clause": self.clause, "msg": self.msg[:2000], "sig": self.sig, "detail": jsonable(self.detail)}


class GeneratorDefect(Exception):
    """The generated scenario/op was rejected as malformed: a harness error, never a violation."""


def jsonable(x: Any, depth: int = 0) -> Any:
    """Convert observations / responses / states to plain JSON types (numpy, enums, IPs, sets -> sorted lists)."""
    import enum
    import ipaddress

    if depth > 60:
        return "<deep>"
    if x is None or isinstance(x, (bool, int, float, str)):
        return x
    try:
        import numpy as np

        if isinstance(x, np.generic):
            return x.item()
        if isinstance(x, np.ndarray):
            return x.tolist()
    except ImportError:
        pass
    if isinstance(x, dict):
        return {str(k): jsonable(v, depth + 1) for k, v in x.items()}
    if isinstance(x, (list, tuple)):
        return [jsonable(v, depth + 1) for v in x]
    if isinstance(x, (set, frozenset)):
        return sorted((jsonable(v, depth + 1) for v in x), key=lambda v: json.dumps(v, sort_keys=True, default=str))
    if isinstance(x, enum.Enum):
        return x.name
    if isinstance(x, (ipaddress.IPv4Address, ipaddress.IPv4Network)):
        return str(x)
    if hasattr(x, "model_dump"):
        try:
            return jsonable(x.model_dump(), depth + 1)
        except Exception:
            return repr(x)
    return str(x)


_ID_RE = re.compile(
    r"[0-9a-f]{8}-[0-9a-f]{4}-[0-9a-f]{4}-[0-9a-f]{4}-[0-9a-f]{12}"  # uuid
    r"|(?:[0-9a-f]{2}:){5}[0-9a-f]{2}"  # mac
    r"|\d{4}-\d{2}-\d{2}[T ]\d{2}:\d{2}:\d{2}(?:\.\d+)?",  # timestamp
    re.I,
)


class Canon:
    """Opaque-identifier canonicalisation: every UUID-, MAC- or timestamp-shaped token is replaced by its order of first
    appearance, so two logs are equal iff they are equal up to a renaming of identifiers."""

    def __init__(self):
        self.ids: Dict[str, str] = {}

    def _sub(self, m):
        tok = m.group(0).lower()
        if tok == "ff:ff:ff:ff:ff:ff":
            return tok
        if tok not in self.ids:
            self.ids[tok] = f"<ID{len(self.ids)}>"
        return self.ids[tok]

    def text(self, s: str) -> str:
        return _ID_RE.sub(self._sub, s)

    def obj(self, x: Any) -> Any:
        if isinstance(x, str):
            return self.text(x)
        if isinstance(x, dict):
            return {self.text(k) if isinstance(k, str) else k: self.obj(v) for k, v in x.items()}
        if isinstance(x, list):
            return [self.obj(v) for v in x]
        return x


def digest(x: Any) -> str:
    return hashlib.sha256(json.dumps(x, sort_keys=True, default=str).encode()).hexdigest()[:20]


def innermost_primaite_frame(exc: BaseException) -> str:
    """'<file>:<function>' of the innermost primaite frame of the traceback (for narrow crash signatures)."""
    tb = traceback.extract_tb(exc.__traceback__)
    for fr in reversed(tb):
        if "/primaite/" in fr.filename:
            return f"{fr.filename.split('/primaite/', 1)[1]}:{fr.name}"
    return "?"


def recursion_cycle(exc: BaseException) -> str:
    """For RecursionError (possibly wrapped): the innermost frame is arbitrary, so the crash site is described by the
    repeating part of the stack: the software-level receive() methods and router forwarding functions in one period."""
    tb = traceback.extract_tb(exc.__traceback__)
    names = [f"{fr.filename.split('/primaite/', 1)[1]}:{fr.name}" for fr in tb if "/primaite/" in fr.filename]
    tail = names[-600:]
    period = None
    for p in range(2, 250):
        if len(tail) >= 2 * p and tail[-p:] == tail[-2 * p : -p]:
            period = tail[-p:]
            break
    if period is None:
        period = tail[-120:]
    sw = sorted({n.split("/")[-1] for n in period if n.endswith(":receive") and "/system/" in n and not n.endswith(("arp.py:receive", "icmp.py:receive"))})
    if sw:
        return "software-ping-pong[" + ",".join(sw) + "]"
    fw = sorted({n.split("/")[-1] for n in period if n.endswith((":route_frame", "router.py:process_frame", "arp.py:receive", "icmp.py:receive"))})
    return "forwarding-cycle[" + ",".join(fw) + "]"


def exc_summary(exc: BaseException) -> Dict:
    is_rec = isinstance(exc, RecursionError) or "RecursionError" in str(exc)[:300]
    return {
        "type": "RecursionError" if is_rec else type(exc).__name__,
        "where": recursion_cycle(exc) if is_rec else innermost_primaite_frame(exc),
        "text": str(exc)[:500],
        "tb": "".join(traceback.format_exception(type(exc), exc, exc.__traceback__))[-3500:],
    }


def intify_keys(x: Any) -> Any:
    """Undo JSON's str-ification of integer mapping keys (YAML never yields digit-string keys, so this is faithful)."""
    if isinstance(x, dict):
        out = {}
        for k, v in x.items():
            if isinstance(k, str) and re.fullmatch(r"-?\d+", k):
                k = int(k)
            out[k] = intify_keys(v)
        return out
    if isinstance(x, list):
        return [intify_keys(v) for v in x]
    return x
