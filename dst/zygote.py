"""Zygote: a fresh interpreter that installs the seams, imports primaite once and then only forks.

One run = one process (DESIGN.md 3.5): PrimAITE keeps class-level state, so a run must never share an interpreter
with another run. The zygote never executes primaite code after import; every job is executed in a forked child which
starts from the zygote's post-import state - the state a freshly exec'ed interpreter with the same PYTHONHASHSEED has.

Protocol (JSON lines): jobs arrive on stdin, results leave on the fd given by --out-fd (stdout of children is
redirected to stderr so prints cannot corrupt the protocol).
job    = {"id": int, "fn": "module:function", "args": {...}, "timeout": seconds}
result = {"id": int, "status": "ok"|"exc"|"timeout"|"died", "result": ..., "error": str, "wall": s}
"""
from __future__ import annotations

import importlib
import json
import os
import selectors
import shutil
import signal
import sys
import tempfile
import time
import traceback


def _resolve(fn: str):
    mod, _, name = fn.partition(":")
    return getattr(importlib.import_module(mod), name)


def run_job_inline(job: dict) -> dict:
    """Execute a job in this process (used by children and by replay in a fresh interpreter)."""
    t0 = time.time()
    try:
        res = _resolve(job["fn"])(job.get("args", {}))
        return {"id": job.get("id"), "status": "ok", "result": res, "wall": time.time() - t0}
    except BaseException as e:  # noqa: BLE001 - harness exception, reported as such (never as a violation)
        return {
            "id": job.get("id"),
            "status": "exc",
            "error": f"{type(e).__name__}: {e}",
            "tb": traceback.format_exc()[-6000:],
            "wall": time.time() - t0,
        }


def _child(job: dict, wfd: int, scratch_root: str):
    import faulthandler

    try:
        faulthandler.dump_traceback_later(max(5, int(job.get("timeout", 60)) - 2), exit=False, file=sys.stderr)
        run_dir = tempfile.mkdtemp(prefix="run_", dir=scratch_root)
        os.environ["VERIF_RUN_DIR"] = run_dir
        out = run_job_inline(job)
        faulthandler.cancel_dump_traceback_later()
        data = json.dumps(out, default=str).encode()
        with os.fdopen(wfd, "wb") as f:
            f.write(data)
        shutil.rmtree(run_dir, ignore_errors=True)
    finally:
        os._exit(0)


def main():
    import argparse

    ap = argparse.ArgumentParser()
    ap.add_argument("--workers", type=int, default=4)
    ap.add_argument("--out-fd", type=int, default=1)
    ap.add_argument("--preload", default="")
    ap.add_argument("--real-torch", action="store_true")
    a = ap.parse_args()

    out = os.fdopen(os.dup(a.out_fd), "w", buffering=1)
    os.dup2(2, 1)  # children's prints go to stderr
    sys.stdout = sys.stderr

    scratch_root = os.environ["VERIF_SCRATCH"]
    from dst import seams

    seams.install(torch_stub=not a.real_torch)
    for m in filter(None, a.preload.split(",")):
        importlib.import_module(m)
    out.write(json.dumps({"ready": True, "hashseed": os.environ.get("PYTHONHASHSEED"), "pid": os.getpid()}) + "\n")

    sel = selectors.DefaultSelector()
    os.set_blocking(0, False)
    sel.register(0, selectors.EVENT_READ, "stdin")
    pending = []
    running = {}  # rfd -> dict(job, pid, start, buf)
    inbuf = b""
    eof = False
    while True:
        while pending and len(running) < a.workers:
            job = pending.pop(0)
            rfd, wfd = os.pipe()
            pid = os.fork()
            if pid == 0:
                os.close(rfd)
                try:
                    sel.close()
                except Exception:
                    pass
                _child(job, wfd, scratch_root)
            os.close(wfd)
            os.set_blocking(rfd, False)
            running[rfd] = {"job": job, "pid": pid, "start": time.time(), "buf": b""}
            sel.register(rfd, selectors.EVENT_READ, "child")
        if eof and not pending and not running:
            break
        for key, _ in sel.select(timeout=0.5):
            if key.data == "stdin":
                try:
                    chunk = os.read(0, 1 << 20)
                except BlockingIOError:
                    continue
                if not chunk:
                    eof = True
                    sel.unregister(0)
                    continue
                inbuf += chunk
                while b"\n" in inbuf:
                    line, inbuf = inbuf.split(b"\n", 1)
                    if line.strip():
                        pending.append(json.loads(line))
            else:
                rfd = key.fd
                st = running[rfd]
                try:
                    chunk = os.read(rfd, 1 << 20)
                except BlockingIOError:
                    continue
                if chunk:
                    st["buf"] += chunk
                    continue
                sel.unregister(rfd)
                os.close(rfd)
                del running[rfd]
                try:
                    os.waitpid(st["pid"], 0)
                except ChildProcessError:
                    pass
                if st["buf"]:
                    out.write(st["buf"].decode() + "\n")
                else:
                    out.write(
                        json.dumps({"id": st["job"]["id"], "status": st.get("why", "died"), "error": "no result record", "wall": time.time() - st["start"]})
                        + "\n"
                    )
        now = time.time()
        for rfd, st in list(running.items()):
            if "why" not in st and now - st["start"] > st["job"].get("timeout", 60):
                st["why"] = "timeout"
                try:
                    os.kill(st["pid"], signal.SIGKILL)
                except ProcessLookupError:
                    pass
    out.close()


if __name__ == "__main__":
    main()
