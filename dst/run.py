"""Check runner: process pool, budgets, known findings, shrinking, replay confirmation, evidence, exit-code policy.

exit 0 = held on everything explored (possibly with KNOWN-FINDING lines)
exit 1 = at least one unlisted violation: a line `VIOLATION property=CNN replay=<path>`
exit 2 = harness error (never evidence either way)
"""
from __future__ import annotations

import argparse
import copy
import hashlib
import json
import os
import sys
import time
from typing import Any, Callable, Dict, Iterable, List, Optional, Tuple

VERIF_ROOT = os.path.dirname(os.path.dirname(os.path.abspath(__file__)))
KNOWN_PATH = os.path.join(VERIF_ROOT, "known_findings.json")
NCPU = os.cpu_count() or 4


def load_known(prop: str) -> List[Dict]:
    try:
        with open(KNOWN_PATH) as f:
            data = json.load(f)
    except FileNotFoundError:
        return []
    return [k for k in data.get("findings", []) if k["property"] == prop and k.get("status", "known") == "known"]


def sig_matches(known: Dict, viol: Dict) -> bool:
    """A known finding lists the exact signature of the failing call site / input / history class."""
    if "sig_prefix" in known:
        if not str(viol.get("sig", "")).startswith(known["sig_prefix"]):
            return False
    elif known["sig"] != viol.get("sig"):
        return False
    for k, v in (known.get("detail_match") or {}).items():
        cur: Any = viol.get("detail", {})
        for part in k.split("."):
            cur = cur.get(part) if isinstance(cur, dict) else None
        if cur != v:
            return False
    return True


class CheckSpec:
    """What a property's check provides to the runner."""

    prop = "C00"
    fn = "dst.driver_env:run_e1"  # job function executed per run
    preload = ("dst.driver_env", "dst.monitors", "dst.scenario")
    hashseed = 0
    timeout = 120
    rule = ""
    assumptions: List[str] = []
    components_real = ["primaite (whole package, from /repo/src working tree)", "gymnasium", "numpy", "pydantic"]
    components_stubbed = ["torch import (sys.modules['torch']=None; the code tolerates its absence)", "wall clock (FakeClock)", "uuid4/secrets (seeded Entropy)", "log/pcap file I/O (off unless io_on)"]

    def jobs(self, tier: str, base_seed: int) -> Iterable[Dict]:
        raise NotImplementedError

    def budget(self, tier: str) -> float:
        return 60.0 if tier == "quick" else 900.0

    def nontrivial(self, res: Dict) -> bool:
        return bool(res.get("faults")) and res.get("steps", 0) > 0

    def distinct_key(self, res: Dict) -> str:
        return f"{res.get('shape')}|{res.get('op_kinds')}"

    def replay_args(self, res: Dict, job_args: Dict) -> Dict:
        """Explicit (scenario, ops) replay of a violating run."""
        a = copy.deepcopy(job_args)
        a.pop("profile", None)
        a.pop("shipped", None)
        a["scenario"] = res["scenario"]
        a["inventory"] = res.get("inventory")
        a["origin"] = res.get("origin")
        a["ops"] = res["ops"]
        return a

    def ops_of(self, args: Dict) -> List:
        return args["ops"]

    def with_ops(self, args: Dict, ops: List) -> Dict:
        a = dict(args)
        a["ops"] = ops
        return a

    def noop_for(self, op: List) -> Optional[List]:
        if op[0] == "step" and op[1] != 0:
            return ["step", 0]
        return None

    def extra_evidence(self, results: List[Dict]) -> Dict:
        return {}


def _merge_counts(dst: Dict[str, int], src: Optional[Dict[str, int]]):
    for k, v in (src or {}).items():
        if isinstance(v, (int, float)):
            dst[k] = dst.get(k, 0) + v


class Runner:
    def __init__(self, spec: CheckSpec, tier: str, seed: int, workers: Optional[int] = None, max_runs: Optional[int] = None):
        self.spec = spec
        self.tier = tier
        self.seed = seed
        self.workers = workers or min(NCPU, 16)
        self.max_runs = max_runs
        self.t0 = time.time()
        self.results: List[Dict] = []
        self.harness_errors: List[Dict] = []
        self.violations: List[Tuple[Dict, Dict]] = []  # (job args, result)
        self.known_hits: Dict[str, Dict] = {}
        self.known = load_known(spec.prop)
        self.foreign: Dict[str, int] = {}
        self.reruns_after_known = 0

    # -- execution -------------------------------------------------------------------------------------------------
    def _job(self, i: int, args: Dict) -> Dict:
        return {"id": i, "fn": self.spec.fn, "args": args, "timeout": self.spec.timeout}

    def execute(self, arg_list: Iterable[Dict], deadline: Optional[float]) -> List[Tuple[Dict, Dict]]:
        from dst.pool import run_jobs

        sent: Dict[int, Dict] = {}

        def gen():
            for i, a in enumerate(arg_list):
                if self.max_runs is not None and i >= self.max_runs:
                    return
                sent[i] = a
                yield self._job(i, a)

        out = []
        for r in run_jobs(gen(), hashseed=self.spec.hashseed, workers=self.workers, preload=self.spec.preload, deadline=deadline):
            out.append((sent[r["id"]], r))
        return out

    def classify(self, pairs: List[Tuple[Dict, Dict]]):
        rerun: List[Dict] = []
        for args, r in pairs:
            if r.get("status") != "ok":
                self.harness_errors.append({"args_seed": args.get("seed"), "status": r.get("status"), "error": r.get("error"), "tb": r.get("tb")})
                continue
            res = r["result"]
            if res.get("harness_error"):
                self.harness_errors.append({"args_seed": args.get("seed"), "status": "harness_error", "error": res["harness_error"]})
                continue
            self.results.append(res)
            v = res.get("violation")
            if not v:
                continue
            if v["property"] != self.spec.prop:
                key = f"{v['property']}:{v['sig']}"
                self.foreign[key] = self.foreign.get(key, 0) + 1
                continue
            k = next((k for k in self.known if sig_matches(k, v)), None)
            if k is not None:
                hit = self.known_hits.setdefault(k["id"], {"finding": k, "count": 0, "example_seed": res.get("seed"), "msg": v["msg"]})
                hit["count"] += 1
                feat = k.get("avoid_feature")
                if feat and args.get("profile") is not None and feat not in args["profile"].get("avoid", []) and args.get("_reruns", 0) < 4:
                    a2 = copy.deepcopy(args)
                    a2["profile"].setdefault("avoid", [])
                    a2["profile"]["avoid"] = list(a2["profile"]["avoid"]) + [feat]
                    a2["_reruns"] = args.get("_reruns", 0) + 1
                    rerun.append(a2)
                continue
            self.violations.append((args, res))
        return rerun

    def replay_known(self):
        """Each listed finding carries a minimised replay file: re-execute it so that the KNOWN-FINDING line is
        reproduced deterministically on every run (and silently disappears once the defect is repaired)."""
        todo = []
        for k in self.known:
            path = k.get("replay")
            if not path:
                continue
            with open(os.path.join(VERIF_ROOT, path)) as f:
                rec = json.load(f)
            todo.append((k, rec["args"]))
        if not todo:
            return
        rs = self._eval_many([a for _, a in todo])
        for (k, a), res in zip(todo, rs):
            v = (res or {}).get("violation")
            if v and v["property"] == self.spec.prop and sig_matches(k, v):
                hit = self.known_hits.setdefault(k["id"], {"finding": k, "count": 0, "example_seed": f"replay {k['replay']}", "msg": v["msg"]})
                hit["count"] += 1
            else:
                print(f"NOTE: known finding {k['id']} did not reproduce from {k['replay']} (got {v['sig'] if v else 'no violation'})")

    def run(self) -> int:
        spec = self.spec
        self.replay_known()
        deadline = self.t0 + spec.budget(self.tier)
        pairs = self.execute(spec.jobs(self.tier, self.seed), deadline)
        rerun = self.classify(pairs)
        rounds = 0
        while rerun and rounds < 4:
            self.reruns_after_known += len(rerun)
            pairs = self.execute(rerun, None)
            rerun = self.classify(pairs)
            rounds += 1
        return self.finish()

    # -- shrinking & replay ---------------------------------------------------------------------------------------------
    def _same(self, res: Optional[Dict], sig: str) -> bool:
        return bool(res and res.get("violation") and res["violation"]["property"] == self.spec.prop and res["violation"]["sig"] == sig)

    def _eval_many(self, cands: List[Dict]) -> List[Optional[Dict]]:
        from dst.pool import run_jobs

        out: List[Optional[Dict]] = [None] * len(cands)
        jobs = [self._job(i, a) for i, a in enumerate(cands)]
        for r in run_jobs(jobs, hashseed=self.spec.hashseed, workers=self.workers, preload=self.spec.preload):
            if r.get("status") == "ok":
                out[r["id"]] = r["result"]
        return out

    def shrink(self, args: Dict, res: Dict, budget_s: float = 90.0) -> Tuple[Dict, Dict]:
        """ddmin over the concrete op list (STEP ops are first replaced by do-nothing so tick numbering survives)."""
        spec = self.spec
        sig = res["violation"]["sig"]
        cur_args = spec.replay_args(res, args)
        base = self._eval_many([cur_args])[0]
        if not self._same(base, sig):
            return cur_args, res  # cannot even reproduce from explicit ops: caller's replay confirmation will flag it
        cur_res = base
        t_end = time.time() + budget_s
        ops = spec.ops_of(cur_args)
        # phase 0: cut everything after the violating op
        idx = cur_res["violation"].get("op_index")
        if idx is not None and idx + 1 < len(ops):
            ops = ops[: idx + 1]
            cur_args = spec.with_ops(cur_args, ops)
        for phase in ("noop", "drop"):
            n = 2
            while time.time() < t_end and len(ops) >= 1:
                size = max(1, len(ops) // n)
                chunks = [(i, min(len(ops), i + size)) for i in range(0, len(ops), size)]
                cands = []
                for lo, hi in chunks:
                    if phase == "drop":
                        new = ops[:lo] + ops[hi:]
                    else:
                        new = ops[:lo] + [spec.noop_for(o) or o for o in ops[lo:hi]] + ops[hi:]
                    cands.append(new if new != ops else None)
                todo = [(i, c) for i, c in enumerate(cands) if c is not None]
                if not todo:
                    if size == 1:
                        break
                    n = min(len(ops), n * 2)
                    continue
                rs = self._eval_many([spec.with_ops(cur_args, c) for _, c in todo])
                hit = next(((c, r) for (_, c), r in zip(todo, rs) if self._same(r, sig)), None)
                if hit:
                    ops, cur_res = hit
                    cur_args = spec.with_ops(cur_args, ops)
                    idx = cur_res["violation"].get("op_index")
                    if idx is not None and idx + 1 < len(ops):
                        ops = ops[: idx + 1]
                        cur_args = spec.with_ops(cur_args, ops)
                    n = max(2, n - 1)
                else:
                    if size == 1:
                        break
                    n = min(len(ops), n * 2)
        return cur_args, cur_res

    def confirm_and_write(self, args: Dict, res: Dict) -> Tuple[Optional[str], str]:
        """Replay the minimised case in a fresh interpreter twice; identical violation + digest, or it is a harness error."""
        from dst.pool import exec_job

        sig = res["violation"]["sig"]
        job = {"id": 0, "fn": self.spec.fn, "args": args, "timeout": self.spec.timeout}
        r1 = exec_job(job, hashseed=self.spec.hashseed)
        r2 = exec_job(job, hashseed=self.spec.hashseed)
        ok1 = r1.get("status") == "ok" and self._same(r1["result"], sig)
        ok2 = r2.get("status") == "ok" and self._same(r2["result"], sig)
        if not (ok1 and ok2):
            return None, f"replay in a fresh interpreter did not reproduce {sig}: {r1.get('status')} {r1.get('error', '')[:300]} / {((r1.get('result') or {}).get('violation') or {}).get('sig')}"
        d1 = (r1["result"]["violation"]["msg"], r1["result"]["n_ops"], r1["result"].get("entropy_draws"), r1["result"].get("clock_reads"))
        d2 = (r2["result"]["violation"]["msg"], r2["result"]["n_ops"], r2["result"].get("entropy_draws"), r2["result"].get("clock_reads"))
        if d1 != d2:
            return None, f"two replays of the same file differ: {d1} vs {d2}"
        rdir = os.path.join(VERIF_ROOT, "replays", self.spec.prop)
        os.makedirs(rdir, exist_ok=True)
        name = hashlib.sha256(json.dumps([sig, args.get("seed")], default=str).encode()).hexdigest()[:12]
        path = os.path.join(rdir, f"{name}.json")
        with open(path, "w") as f:
            json.dump({"property": self.spec.prop, "fn": self.spec.fn, "hashseed": self.spec.hashseed, "violation": r1["result"]["violation"], "args": args}, f, indent=1, default=str)
        return path, ""

    # -- evidence -------------------------------------------------------------------------------------------------------
    def finish(self) -> int:
        spec = self.spec
        wall = time.time() - self.t0
        n_eval = len(self.results)
        distinct = set()
        probes: Dict[str, int] = {}
        faults: Dict[str, int] = {}
        clockf: Dict[str, int] = {}
        mon: Dict[str, Dict[str, int]] = {}
        ticks = 0
        for r in self.results:
            if spec.nontrivial(r):
                distinct.add(spec.distinct_key(r))
            _merge_counts(probes, r.get("probes"))
            _merge_counts(faults, r.get("faults"))
            _merge_counts(clockf, r.get("clock_faults"))
            ticks += r.get("steps", 0) or r.get("ticks", 0) or 0
            for m, st in (r.get("monitor_stats") or {}).items():
                _merge_counts(mon.setdefault(m, {}), st)
        for k, h in sorted(self.known_hits.items()):
            print(f"KNOWN-FINDING: property={spec.prop} {h['finding']['what_fails']} [id={k}, seen in {h['count']} runs, e.g. seed {h['example_seed']}]")
        exit_code = 0
        violation_lines = []
        harness_msgs = []
        # shrink + confirm up to 3 distinct unknown signatures
        by_sig: Dict[str, Tuple[Dict, Dict]] = {}
        for a, r in self.violations:
            by_sig.setdefault(r["violation"]["sig"], (a, r))
        for sig, (a, r) in list(by_sig.items())[:3]:
            try:
                margs, mres = self.shrink(a, r)
                path, err = self.confirm_and_write(margs, mres)
            except Exception as e:  # noqa: BLE001
                path, err = None, f"shrink/replay failed: {type(e).__name__}: {e}"
            if path:
                line = f"VIOLATION property={spec.prop} replay={path}"
                print(line)
                print(f"  {mres['violation']['clause']}: {mres['violation']['msg'][:400]} (seed {r.get('seed')}, {len(spec.ops_of(margs))} ops after shrinking)")
                violation_lines.append(line)
                exit_code = 1
            else:
                harness_msgs.append(err)
        for sig in list(by_sig)[3:]:
            print(f"  (further distinct violation signature not minimised: {sig})")
        n_sent = n_eval + len(self.harness_errors)
        if harness_msgs or (self.harness_errors and len(self.harness_errors) > max(2, 0.05 * max(1, n_sent))) or n_eval == 0:
            for m in harness_msgs:
                print(f"HARNESS-ERROR: {m}")
            for h in self.harness_errors[:5]:
                print(f"HARNESS-ERROR: run seed={h.get('args_seed')} {h.get('status')}: {(h.get('error') or '')[:600]}")
                if h.get("tb"):
                    print(h["tb"][-1500:])
            if exit_code == 0:
                exit_code = 2
        for name, val in sorted(probes.items()):
            pass
        vac = [p for p in getattr(spec, "required_probes", []) if probes.get(p, 0) == 0]
        for p in vac:
            print(f"VACUOUS probe={p}")
        if vac and exit_code == 0 and self.max_runs is None:
            exit_code = 2  # a check whose required situations never arose has decided nothing: harness error, not a pass
        samples = []
        for r in self.results[:2]:
            samples.append({k: r.get(k) for k in ("seed", "origin", "n_ops", "steps", "episodes", "faults", "probes", "shape", "op_kinds") if k in r})
        for a, r in self.violations[:1]:
            samples.append({"violating_seed": r.get("seed"), "violation": r["violation"]})
        evidence = {
            "property_id": spec.prop,
            "tier": self.tier,
            "seed": self.seed,
            "level": "exploration",
            "coverage": {
                "evaluations": n_eval,
                "distinct_nontrivial": len(distinct),
                "rule": spec.rule,
                "samples": samples or [{"note": "no run completed"}],
                "runs_per_hour": round(n_eval / max(wall, 1e-6) * 3600),
                "simulated_ticks": ticks,
                "faults_fired": faults,
                "clock_faults_fired": clockf,
                "probes": probes,
                "vacuous_probes": vac,
                "monitor_counters": mon,
                "known_findings_seen": {k: h["count"] for k, h in self.known_hits.items()},
                "reruns_after_known_finding": self.reruns_after_known,
                "foreign_violations": self.foreign,
                "harness_errors": len(self.harness_errors),
                "workers": self.workers,
                "components_real": spec.components_real,
                "components_stubbed": spec.components_stubbed,
                **spec.extra_evidence(self.results),
            },
            "assumptions": spec.assumptions,
            "wall_s": round(wall, 2),
            "violations": len(violation_lines),
        }
        os.makedirs(os.path.join(VERIF_ROOT, "evidence"), exist_ok=True)
        with open(os.path.join(VERIF_ROOT, "evidence", f"{spec.prop}.json"), "w") as f:
            json.dump(evidence, f, indent=1, default=str)
        print(
            f"{spec.prop} {self.tier}: {n_eval} runs, {len(distinct)} distinct non-trivial, {ticks} ticks, {len(self.known_hits)} known findings, "
            f"{len(by_sig)} new violation signatures, {len(self.harness_errors)} harness errors, {wall:.1f}s -> exit {exit_code}"
        )
        return exit_code


def main(spec: CheckSpec, argv: Optional[List[str]] = None) -> int:
    ap = argparse.ArgumentParser()
    ap.add_argument("--tier", default=os.environ.get("VERIF_TIER", "quick"), choices=["quick", "thorough"])
    ap.add_argument("--seed", type=int, default=int(os.environ.get("VERIF_SEED", "0")))
    ap.add_argument("--workers", type=int, default=None)
    ap.add_argument("--max-runs", type=int, default=None)
    ap.add_argument("--replay", default=None)
    ap.add_argument("--one", type=int, default=None, help="debug: run the job with this index in a fresh interpreter and print its result")
    ap.add_argument("--make-known", default=None, help="SEED:relative/path.json - shrink the violation of that run seed and store it as a known-finding replay")
    ap.add_argument("--sigs", action="store_true", help="debug: run and print all violation signatures with counts, no shrinking")
    a = ap.parse_args(argv)
    if a.one is not None:
        from dst.pool import exec_job

        for i, args in enumerate(spec.jobs(a.tier, a.seed)):
            if i == a.one:
                r = exec_job({"id": i, "fn": spec.fn, "args": args, "timeout": 600}, hashseed=spec.hashseed)
                res = r.get("result") or {}
                v = res.get("violation")
                print(json.dumps({k: res.get(k) for k in res if k not in ("scenario", "inventory", "ops", "log", "violation")}, indent=1, default=str)[:3000])
                if r.get("status") != "ok":
                    print(r.get("status"), r.get("error"), r.get("tb"))
                if v:
                    print("VIOLATION", v["property"], v["clause"], v["sig"])
                    print(v["msg"][:2000])
                    print((v.get("detail", {}).get("exc") or {}).get("tb", ""))
                    print("ops:", json.dumps(res.get("ops"))[:2000])
                return 0
    if a.make_known:
        seed_s, out = a.make_known.split(":", 1)
        rn = Runner(spec, a.tier, a.seed, a.workers, None)
        rn.known = []
        args = next(x for x in spec.jobs(a.tier, a.seed) if x.get("seed") == int(seed_s))
        res = rn._eval_many([{**args, "return_case": True}])[0]
        if not (res and res.get("violation")):
            print("no violation for that seed")
            return 2
        margs, mres = rn.shrink(args, res)
        os.makedirs(os.path.dirname(os.path.join(VERIF_ROOT, out)), exist_ok=True)
        with open(os.path.join(VERIF_ROOT, out), "w") as f:
            json.dump({"property": spec.prop, "fn": spec.fn, "hashseed": spec.hashseed, "violation": mres["violation"], "args": margs}, f, indent=1, default=str)
        print("wrote", out, mres["violation"]["sig"], len(spec.ops_of(margs)), "ops")
        return 0
    if a.sigs:
        rn = Runner(spec, a.tier, a.seed, a.workers, a.max_runs)
        pairs = rn.execute(spec.jobs(a.tier, a.seed), time.time() + spec.budget(a.tier))
        cnt = {}
        for args, r in pairs:
            res = r.get("result") or {}
            v = res.get("violation")
            key = f"{v['property']}:{v['sig']}" if v else (f"HARNESS:{(res.get('harness_error') or r.get('error') or '')[:160]}" if (r.get("status") != "ok" or res.get("harness_error")) else "ok")
            cnt.setdefault(key, []).append(list(spec.jobs(a.tier, a.seed)).index(args) if False else args.get("seed"))
        for k, v in sorted(cnt.items(), key=lambda kv: -len(kv[1])):
            print(len(v), k, v[:4])
        return 0
    if a.replay:
        from dst.replay import replay_file

        return replay_file(a.replay)
    code = Runner(spec, a.tier, a.seed, a.workers, a.max_runs).run()
    sys.stdout.flush()
    return code
