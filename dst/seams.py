"""Seams: every source of nondeterminism PrimAITE reads goes through this module (DESIGN.md section 2).

Nothing here touches /repo: the seams are installed from outside, in harness processes only, by rebinding
module attributes before the first primaite object is built.

  * uuid4            (simulator/core.py, database_service.py, database_client.py, terminal.py)
  * secrets.randbits / secrets.token_urlsafe   (MAC addresses, ICMP identifiers, ICMP payloads)
  * datetime.now()   (frame timestamps - they are serialised into the frame and change Frame.size -,
                      connection timestamps, NTP payload)
  * HOME / XDG dirs  (primaite writes ~/primaite/<version>/... on import)
  * python logging   (raised to CRITICAL unless a run asks for logging on)
  * torch import     (1.5 s, irrelevant to every property; stubbed unless asked)

PRNG discipline: VERIF_SEED -> sha256(seed || label) -> independent random.Random streams.
"""
from __future__ import annotations

import datetime as _dt
import hashlib
import os
import random
import sys
import uuid as _uuid
from typing import Dict, List, Optional

REPO_SRC = os.environ.get("PRIMAITE_VERIF_SRC", "/repo/src")
GUARD = "PRIMAITE_VERIF"

_REAL_DATETIME = _dt.datetime


def stream(seed: int, label: str) -> random.Random:
    """Independent PRNG stream derived from (seed, label)."""
    h = hashlib.sha256(f"{seed}|{label}".encode()).digest()
    return random.Random(int.from_bytes(h[:16], "big"))


def derive(seed: int, label: str) -> int:
    h = hashlib.sha256(f"{seed}|{label}".encode()).digest()
    return int.from_bytes(h[:8], "big")


class Entropy:
    """Replacement for uuid4 / secrets: a seeded stream that the run owns."""

    def __init__(self, seed: int = 0, id_width: str = "mixed"):
        self.reseed(seed, id_width)

    def reseed(self, seed: int, id_width: str = "mixed"):
        self.rng = random.Random(seed)
        self.id_width = id_width
        self.draws = 0

    def uuid4(self) -> _uuid.UUID:
        self.draws += 1
        return _uuid.UUID(int=self.rng.getrandbits(128), version=4)

    def randbits(self, k: int) -> int:
        self.draws += 1
        v = self.rng.getrandbits(k)
        if k == 16:
            # ICMP identifiers: printed length 1..5 digits matters (Frame.size); "short"/"long" force extremes
            if self.id_width == "short":
                return v % 10
            if self.id_width in ("long", "fixed5"):
                return 10000 + v % 55536
        return v

    def randbelow(self, n: int) -> int:
        self.draws += 1
        return self.rng.randrange(n)

    def token_bytes(self, nbytes: Optional[int] = None) -> bytes:
        self.draws += 1
        return bytes(self.rng.getrandbits(8) for _ in range(32 if nbytes is None else nbytes))

    def token_urlsafe(self, nbytes: Optional[int] = None) -> str:
        import base64

        self.draws += 1
        nbytes = 32 if nbytes is None else nbytes
        tok = bytes(self.rng.getrandbits(8) for _ in range(nbytes))
        return base64.urlsafe_b64encode(tok).rstrip(b"=").decode("ascii")


class FakeClock:
    """Simulated wall clock. now() is the only reading; faults are scripted by call index.

    script: dict with keys
      epoch:  ISO string of the first instant
      step_us: microseconds added per reading (0 = stalled clock)
      events: list of [call_index, kind, arg]; kinds: jump(+s), back(-s), zero_us (this reading has microsecond=0),
              stall(n readings without progress)
    """

    def __init__(self, script: Optional[Dict] = None):
        self.load(script or {})

    def load(self, script: Dict):
        self.script = script
        self.t = _REAL_DATETIME.fromisoformat(script.get("epoch", "2025-01-01T00:00:00.000123"))
        self.step = _dt.timedelta(microseconds=int(script.get("step_us", 1013)))
        self.events = {}
        for idx, kind, arg in script.get("events", []):
            self.events.setdefault(int(idx), []).append((kind, arg))
        self.calls = 0
        self.stall_left = 0
        self.fired: Dict[str, int] = {}

    def now(self) -> _dt.datetime:
        i = self.calls
        self.calls += 1
        zero_us = False
        for kind, arg in self.events.get(i, ()):
            self.fired[kind] = self.fired.get(kind, 0) + 1
            if kind == "jump":
                self.t += _dt.timedelta(seconds=float(arg))
            elif kind == "back":
                self.t -= _dt.timedelta(seconds=float(arg))
            elif kind == "stall":
                self.stall_left = int(arg)
            elif kind == "zero_us":
                zero_us = True
        if self.stall_left > 0:
            self.stall_left -= 1
        else:
            self.t += self.step
        if zero_us:
            return self.t.replace(microsecond=0)
        if self.t.microsecond == 0:
            # isoformat() drops the fraction when it is 0: that printed-width effect is reserved for the zero_us fault
            self.t += _dt.timedelta(microseconds=1)
        return self.t


ENTROPY = Entropy(0)
CLOCK = FakeClock()


class FakeDateTime(_REAL_DATETIME):
    """datetime subclass whose now() reads the simulated wall clock."""

    @classmethod
    def now(cls, tz=None):  # noqa: D102
        t = CLOCK.now()
        return cls(t.year, t.month, t.day, t.hour, t.minute, t.second, t.microsecond)

    @classmethod
    def utcnow(cls):  # noqa: D102
        return cls.now()


def _uuid4():
    return ENTROPY.uuid4()


_INSTALLED = False
INSTALL_LOG: List[str] = []

_UUID_MODULES = [
    "primaite.simulator.core",
    "primaite.simulator.system.services.database.database_service",
    "primaite.simulator.system.applications.database_client",
    "primaite.simulator.system.services.terminal.terminal",
]
_DATETIME_MODULES = [
    "primaite.simulator.network.transmission.data_link_layer",
    "primaite.simulator.system.software",
    "primaite.simulator.system.services.terminal.terminal",
    "primaite.simulator.system.services.ntp.ntp_server",
]


def prepare_env(home: str):
    """Environment a harness interpreter needs *before* importing primaite."""
    os.environ["HOME"] = home
    for k in ("XDG_DATA_HOME", "XDG_CONFIG_HOME", "XDG_STATE_HOME", "XDG_CACHE_HOME"):
        os.environ[k] = os.path.join(home, "." + k.lower())
    os.environ[GUARD] = "1"
    os.environ.setdefault("PYTHONWARNINGS", "ignore")


def install(torch_stub: bool = True, quiet_logging: bool = True):
    """Import primaite from REPO_SRC and install the seams. Idempotent."""
    global _INSTALLED
    if _INSTALLED:
        return
    import warnings

    warnings.filterwarnings("ignore")
    if REPO_SRC not in sys.path:
        sys.path.insert(0, REPO_SRC)
    if torch_stub and "torch" not in sys.modules:
        sys.modules["torch"] = None  # the code tolerates a missing torch (session/environment.py)
        INSTALL_LOG.append("torch:stub")
    import importlib
    import secrets

    secrets.randbits = lambda k: ENTROPY.randbits(k)  # noqa: E731
    secrets.token_urlsafe = lambda n=None: ENTROPY.token_urlsafe(n)  # noqa: E731
    # the rest of the secrets API is owned too, so that any new use of it is repeatable per run and differs between
    # entropy streams (an unseeded choice then shows up as a C03 divergence instead of passing by luck)
    secrets.randbelow = lambda n: ENTROPY.randbelow(n)  # noqa: E731
    secrets.choice = lambda seq: seq[ENTROPY.randbelow(len(seq))]  # noqa: E731
    secrets.token_bytes = lambda n=None: ENTROPY.token_bytes(n)  # noqa: E731
    secrets.token_hex = lambda n=None: ENTROPY.token_bytes(n).hex()  # noqa: E731
    INSTALL_LOG.append("secrets:seamed")

    import primaite  # noqa: F401

    assert primaite.__file__.startswith(REPO_SRC), f"primaite imported from {primaite.__file__}, want {REPO_SRC}"
    import primaite.session.environment  # noqa: F401  pulls in the whole game + simulator

    for name in _UUID_MODULES:
        mod = importlib.import_module(name)
        if not hasattr(mod, "uuid4"):
            raise RuntimeError(f"seam target missing: {name}.uuid4")
        mod.uuid4 = _uuid4
    for name in _DATETIME_MODULES:
        mod = importlib.import_module(name)
        if not hasattr(mod, "datetime"):
            raise RuntimeError(f"seam target missing: {name}.datetime")
        mod.datetime = FakeDateTime
    INSTALL_LOG.append("uuid4:seamed datetime:seamed")
    if quiet_logging:
        import logging

        logging.disable(logging.CRITICAL)
    _INSTALLED = True


def begin_run(entropy_seed: int, clock_script: Optional[Dict] = None, id_width: str = "mixed", logging_on: bool = False, rng_seed: Optional[int] = None):
    """Reset the run-owned streams; called in the (forked or exec'ed) run process before any primaite object exists.

    The process-global RNGs (random, numpy.random) are seeded here as well: an interpreter seeds them from os.urandom at
    start-up, and PrimAITE only re-seeds them when a scenario carries game.seed (the request-level bench never does)."""
    import logging

    import numpy as _np

    g = entropy_seed if rng_seed is None else rng_seed
    random.seed(g % (2**32))
    _np.random.seed(g % (2**32))

    ENTROPY.reseed(entropy_seed, id_width)
    CLOCK.load(clock_script or {})
    logging.disable(logging.NOTSET if logging_on else logging.CRITICAL)


def clock_script_for(seed: int, kind: str = "auto") -> Dict:
    """Seeded wall-clock fault script (fault F7)."""
    rng = stream(seed, "clock")
    if kind == "auto":
        kind = rng.choice(["plain", "plain", "skewed", "jumpy", "stalled", "zero_us", "backward"])
    script = {"kind": kind, "epoch": "2025-01-01T00:00:00.000123", "step_us": 1013, "events": []}
    if kind == "skewed":
        script["epoch"] = f"20{rng.randint(10, 40)}-0{rng.randint(1, 9)}-1{rng.randint(0, 9)}T1{rng.randint(0, 9)}:59:59.99{rng.randint(1000, 9999)}"
        script["step_us"] = rng.choice([1, 7, 999983, 60000001])
    elif kind == "jumpy":
        script["events"] = [[rng.randint(0, 4000), "jump", rng.choice([0.5, 3600, 86400 * 400])] for _ in range(20)]
    elif kind == "stalled":
        script["step_us"] = 0
    elif kind == "zero_us":
        script["events"] = [[i, "zero_us", None] for i in sorted(rng.sample(range(6000), 1500))]
    elif kind == "backward":
        script["events"] = [[rng.randint(0, 4000), "back", rng.choice([0.001, 5, 7200])] for _ in range(20)]
    return script
