"""Reference packet filter (C07): positions -> optional rule; a rule matches when every specified field equals the
packet's, None = any, wildcard = (ip & ~mask) == (base & ~mask); the lowest-positioned matching rule decides, else the
implicit action; exactly the deciding rule's hit counter is incremented."""
from __future__ import annotations

import ipaddress
from dataclasses import dataclass, field
from typing import Dict, List, Optional, Tuple


def ip_int(x) -> Optional[int]:
    return None if x is None else int(ipaddress.IPv4Address(str(x)))


@dataclass
class RefRule:
    permit: bool
    protocol: Optional[str] = None
    src_ip: Optional[int] = None
    src_wc: Optional[int] = None
    dst_ip: Optional[int] = None
    dst_wc: Optional[int] = None
    src_port: Optional[int] = None
    dst_port: Optional[int] = None
    hits: int = 0

    def key(self) -> Tuple:
        return (self.permit, self.protocol, self.src_ip, self.src_wc, self.dst_ip, self.dst_wc, self.src_port, self.dst_port)

    @staticmethod
    def _ip_matches(base, wc, ip) -> bool:
        if base is None:
            return True
        if wc is not None:
            m = ~wc & 0xFFFFFFFF
            return (ip & m) == (base & m)
        return ip == base

    def matches(self, pkt: Dict) -> bool:
        if self.protocol is not None and self.protocol != pkt["protocol"]:
            return False
        if not self._ip_matches(self.src_ip, self.src_wc, pkt["src_ip"]):
            return False
        if not self._ip_matches(self.dst_ip, self.dst_wc, pkt["dst_ip"]):
            return False
        if self.src_port is not None and self.src_port != pkt.get("src_port"):
            return False
        if self.dst_port is not None and self.dst_port != pkt.get("dst_port"):
            return False
        return True


@dataclass
class RefACL:
    implicit_permit: bool
    size: int = 24
    slots: List[Optional[RefRule]] = field(default_factory=list)
    implicit_hits: int = 0

    def __post_init__(self):
        if not self.slots:
            self.slots = [None] * self.size

    def verdict(self, pkt: Dict, count: bool = True) -> Tuple[bool, Optional[int]]:
        for i, r in enumerate(self.slots):
            if r is not None and r.matches(pkt):
                if count:
                    r.hits += 1
                return r.permit, i
        if count:
            self.implicit_hits += 1
        return self.implicit_permit, None


def rule_from_object(rule) -> RefRule:
    """Reference view of a live ACLRule object (field values only)."""
    return RefRule(
        permit=rule.action.name == "PERMIT",
        protocol=rule.protocol if rule.protocol is not None else None,
        src_ip=ip_int(rule.src_ip_address),
        src_wc=ip_int(rule.src_wildcard_mask),
        dst_ip=ip_int(rule.dst_ip_address),
        dst_wc=ip_int(rule.dst_wildcard_mask),
        src_port=rule.src_port,
        dst_port=rule.dst_port,
        hits=rule.match_count,
    )


def packet_of_frame(frame) -> Dict:
    sp = dp = None
    if frame.tcp is not None:
        sp, dp = frame.tcp.src_port, frame.tcp.dst_port
    elif frame.udp is not None:
        sp, dp = frame.udp.src_port, frame.udp.dst_port
    return {"protocol": frame.ip.protocol, "src_ip": int(frame.ip.src_ip_address), "dst_ip": int(frame.ip.dst_ip_address), "src_port": sp, "dst_port": dp}
