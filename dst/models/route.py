"""Reference IP forwarding model (C08): longest-prefix match with lowest metric on ties and the default route as last
resort; hosts use their default gateway for off-subnet destinations; a walk over the modelled topology gives the list of
layer-3 devices a unicast packet must visit, or the reason why it cannot be delivered.

The model reads *state* from the built objects (addresses, masks, route entries, power state, enabled flags, link
attachment, live ACL rule fields) but none of their decision logic."""
from __future__ import annotations

import ipaddress
from typing import Any, Dict, List, Optional, Tuple

from dst.models.acl import RefACL, rule_from_object


def net_of(ip, mask) -> ipaddress.IPv4Network:
    return ipaddress.IPv4Network(f"{ip}/{mask}", strict=False)


def best_routes(routes: List[Tuple[str, str, str, float]], default: Optional[str], dst: str) -> Tuple[List[int], bool]:
    """Indices of the acceptable best routes for dst among (address, mask, next_hop, metric); ([], True) = default route."""
    d = ipaddress.IPv4Address(dst)
    cands = []
    for i, (addr, mask, nh, metric) in enumerate(routes):
        n = net_of(addr, mask)
        if d in n:
            cands.append((n.prefixlen, metric, i))
    if not cands:
        return [], default is not None
    longest = max(c[0] for c in cands)
    tied = [c for c in cands if c[0] == longest]
    low = min(c[1] for c in tied)
    return [c[2] for c in tied if c[1] == low], False


class Topo:
    """Live view of a built Network for the walk."""

    def __init__(self, network):
        self.net = network
        self.nodes = dict((n.config.hostname, n) for n in network.nodes.values())

    @staticmethod
    def kind(node) -> str:
        c = node.__class__.__name__
        if c in ("Computer", "Server", "Printer"):
            return "host"
        if c == "Switch":
            return "switch"
        return "router"  # Router, Firewall, WirelessRouter

    def on(self, node) -> bool:
        return node.operating_state.name == "ON"

    def l3_ifaces(self, node) -> List[Any]:
        return [i for i in node.network_interface.values() if getattr(i, "ip_address", None) is not None]

    def owner_of(self, ip: str) -> Optional[Any]:
        for n in self.nodes.values():
            if self.kind(n) == "switch":
                continue
            for i in self.l3_ifaces(n):
                if str(i.ip_address) == ip:
                    return n
        return None

    def segment(self, iface) -> List[Any]:
        """Layer-3 interfaces reachable from iface at layer 2 (through powered-on switches with enabled ports; wired
        links whose both ends are enabled). The wireless air between access points is treated as one segment per
        frequency."""
        out, seen, todo = [], {id(iface)}, [iface]
        while todo:
            cur = todo.pop()
            if not cur.enabled:
                continue
            peers = []
            link = getattr(cur, "_connected_link", None)
            if link is not None:
                other = link.endpoint_b if link.endpoint_a is cur else link.endpoint_a
                peers.append(other)
            elif hasattr(cur, "airspace") and hasattr(cur, "frequency"):
                for n in self.nodes.values():
                    for i in n.network_interface.values():
                        if i is not cur and hasattr(i, "frequency") and i.frequency == cur.frequency:
                            peers.append(i)
            for p in peers:
                if id(p) in seen or not p.enabled:
                    continue
                seen.add(id(p))
                owner = p._connected_node
                if owner is None or not self.on(owner):
                    continue
                if self.kind(owner) == "switch":
                    for q in owner.network_interface.values():
                        if id(q) not in seen:
                            seen.add(id(q))
                            todo.append(q)
                else:
                    out.append(p)
        return out

    def acl_lists_crossed(self, dev, in_iface, out_iface) -> List[Any]:
        if dev.__class__.__name__ != "Firewall":
            return [dev.acl]
        zone = {1: "external", 2: "internal", 3: "dmz"}
        zi = zone.get(in_iface.port_num)
        lists = []
        if zi:
            lists.append(getattr(dev, "external_inbound_acl" if zi == "external" else f"{zi}_outbound_acl"))
        if out_iface is not None:
            zo = zone.get(out_iface.port_num)
            if zo:
                lists.append(getattr(dev, "external_outbound_acl" if zo == "external" else f"{zo}_inbound_acl"))
        return lists

    @staticmethod
    def permits(acl, pkt: Dict) -> bool:
        ref = RefACL(implicit_permit=acl.implicit_action.name == "PERMIT", size=len(acl.acl), slots=[None if r is None else rule_from_object(r) for r in acl.acl])
        return ref.verdict(pkt, count=False)[0]

    def walk(self, src_name: str, dst_ip: str, pkt: Dict, max_hops: int = 64) -> Tuple[Optional[List[str]], str]:
        """(list of layer-3 devices visited after the source up to and including the addressee, "") or (None, reason)."""
        d = ipaddress.IPv4Address(dst_ip)
        cur = self.nodes[src_name]
        if not self.on(cur):
            return None, f"{src_name} is not on"
        visited: List[str] = []
        in_iface = None
        prev_ip = None
        for _ in range(max_hops):
            name = cur.config.hostname
            ifaces = [i for i in self.l3_ifaces(cur) if i.enabled]
            transit = self.kind(cur) == "router" and in_iface is not None
            if transit:
                for acl in self.acl_lists_crossed(cur, in_iface, None):
                    if not self.permits(acl, pkt):
                        return None, f"{name} denies the packet"
            if any(str(i.ip_address) == dst_ip for i in self.l3_ifaces(cur)) and in_iface is not None:
                return visited, ""
            # next hop
            out_iface, nh = None, None
            for i in ifaces:
                if d in net_of(i.ip_address, i.subnet_mask):
                    out_iface, nh = i, dst_ip
                    break
            if out_iface is None:
                if self.kind(cur) == "host":
                    gw = getattr(cur.config, "default_gateway", None)
                    if gw is None:
                        return None, f"{name} has no default gateway"
                    nh = str(gw)
                else:
                    rt = cur.route_table
                    routes = [(str(r.address), str(r.subnet_mask), str(r.next_hop_ip_address), r.metric) for r in rt.routes]
                    default = str(rt.default_route.next_hop_ip_address) if rt.default_route else None
                    idx, use_default = best_routes(routes, default, dst_ip)
                    if idx:
                        hops = {routes[i][2] for i in idx}
                        if len(hops) > 1:
                            return None, f"{name}: ambiguous best route"
                        nh = hops.pop()
                    elif use_default:
                        nh = default
                    else:
                        return None, f"{name} has no route to {dst_ip}"
                for i in ifaces:
                    if ipaddress.IPv4Address(nh) in net_of(i.ip_address, i.subnet_mask):
                        out_iface = i
                        break
                if out_iface is None:
                    return None, f"{name}: next hop {nh} is on no enabled interface"
            if transit:
                for acl in self.acl_lists_crossed(cur, in_iface, out_iface)[1:]:
                    if not self.permits(acl, pkt):
                        return None, f"{name} denies the packet"
                if cur.__class__.__name__ == "Firewall":
                    # a firewall's lists also see the address resolution traffic of its neighbours (udp 219 -> 219
                    # arriving on the port the neighbour is attached to)
                    for iface, peer in ((in_iface, prev_ip), (out_iface, nh)):
                        arrive = self.acl_lists_crossed(cur, iface, None)
                        arp = {"protocol": "udp", "src_ip": int(ipaddress.IPv4Address(peer)), "dst_ip": int(iface.ip_address), "src_port": 219, "dst_port": 219}
                        if arrive and not self.permits(arrive[0], arp):
                            return None, f"{name} denies address resolution with {peer}"
            nxt = next((p for p in self.segment(out_iface) if str(p.ip_address) == nh), None)
            if nxt is None:
                return None, f"{name}: {nh} is not reachable at layer 2 from port {out_iface.port_num}"
            prev_ip = str(out_iface.ip_address)
            cur = nxt._connected_node
            in_iface = nxt
            visited.append(cur.config.hostname)
            if self.kind(cur) == "host" and str(nxt.ip_address) != dst_ip:
                return None, f"{cur.config.hostname} is not the addressee"
        return None, "forwarding loop"
