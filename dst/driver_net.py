"""E2: Simulation/Network bench driver (request + tick level, no game layer agents).

The network is built by the real PrimaiteGame.from_config from a generated scenario without agents; ops are
  ["req", path, label]     Simulation.apply_request(path)
  ["tick"]                  end of the current step (apply_timestep) and beginning of the next (pre_timestep)
  ["call", name, args]      whitelisted public Python API call (dst.driver_net.CALLS / workload-specific)
  ["probe", name, args]     oracle-side observation through public API (ping, read file health, ...)
Workloads (dst/props/*.py) subclass E2Run: they generate ops online from the ops/fault streams, execute them through
do_op and check their oracles; ops are recorded concretely so replays never consult the generator.
"""
from __future__ import annotations

import copy
import time
from typing import Any, Callable, Dict, List, Optional

from dst import seams
from dst.core import Canon, GeneratorDefect, Violation, digest, exc_summary, intify_keys, jsonable


class E2Run:
    prop = "C00"
    default_monitors: List[str] = []

    def __init__(self, args: Dict):
        self.args = args
        self.seed = int(args.get("seed", 0))
        self.ops_rng = seams.stream(self.seed, "ops")
        self.fault_rng = seams.stream(self.seed, "faults")
        self.ops: List[List] = []
        self.probes: Dict[str, int] = {}
        self.faults_fired: Dict[str, int] = {}
        self.monitors: List[Any] = []
        self.game = None
        self.sim = None
        self.network = None
        self.env = None
        self.scenario: Dict = {}
        self.inv: Dict = {}
        self.t = 0
        self.ticks = 0
        self.op_index = -1
        self.replaying = args.get("ops") is not None
        self.calls: Dict[str, Callable] = {}

    def probe(self, name: str, n: int = 1):
        self.probes[name] = self.probes.get(name, 0) + n

    def fault(self, kind: str):
        self.faults_fired[kind] = self.faults_fired.get(kind, 0) + 1

    # -- build ---------------------------------------------------------------------------------------------------
    def profile(self) -> Dict:
        return {}

    def make_scenario(self):
        a = self.args
        if a.get("scenario") is not None:
            self.scenario = intify_keys(copy.deepcopy(a["scenario"]))
            self.inv = intify_keys(copy.deepcopy(a.get("inventory") or {}))
            self.origin = a.get("origin", "explicit")
        else:
            from dst.driver_env import measure_frame_mbits
            from dst.scenario import generate

            prof = {"n_green": (0, 0), "n_red": (0, 0), "no_blue": True, **self.profile(), **(a.get("profile") or {})}
            prof.setdefault("frame_mbits", measure_frame_mbits())
            self.scenario, self.inv = generate(seams.stream(self.seed, "scenario"), prof)
            self.tweak_scenario()
            self.origin = "generated"

    def tweak_scenario(self):
        """Workload-specific adjustments of the generated scenario (recorded: the tweaked dict is what replays use)."""

    def build(self):
        from primaite.game.game import PrimaiteGame

        self.game = PrimaiteGame.from_config(copy.deepcopy(self.scenario))
        self.sim = self.game.simulation
        self.network = self.sim.network
        self.sim.pre_timestep(self.t)

    def node(self, name: str):
        return self.network.get_node_by_hostname(name)

    # -- ops -----------------------------------------------------------------------------------------------------
    def do_op(self, op: List) -> Any:
        self.op_index += 1
        kind = op[0]
        if kind == "tick":
            return self.do_tick()
        if kind == "req":
            return self.do_req(op[1], op[2] if len(op) > 2 else "req")
        if kind == "call":
            return self.do_call(op[1], op[2] if len(op) > 2 else {})
        raise GeneratorDefect(f"unknown op {op}")

    def emit(self, op: List) -> Any:
        """Record and execute an op (generation mode)."""
        self.ops.append(op)
        return self.do_op(op)

    def do_tick(self):
        for m in self.monitors:
            m.before_tick(self)
        self.t += 1
        self.ticks += 1
        try:
            self.sim.apply_timestep(self.t)
            for m in self.monitors:
                m.mid_tick(self)
            self.sim.pre_timestep(self.t)
        except Violation:
            raise
        except Exception as e:  # noqa: BLE001
            info = exc_summary(e)
            raise Violation("C01", "tick-raises", f"advancing the simulation one tick raised {info['type']}: {info['text']}", sig=f"tick-raises:{info['type']}:{info['where']}", detail={"exc": info})
        for m in self.monitors:
            m.after_tick(self)
        self.on_tick()

    def on_tick(self):
        pass

    def do_req(self, req: List, label: str = "req"):
        for m in self.monitors:
            m.before_req(self, req, label)
        try:
            resp = self.sim.apply_request(copy.deepcopy(req))
        except Violation:
            raise
        except Exception as e:  # noqa: BLE001
            info = exc_summary(e)
            raise Violation("C05", "request-raises", f"apply_request({req}) raised {info['type']}: {info['text']}", sig=f"request-raises:{info['type']}:{info['where']}", detail={"exc": info, "request": jsonable(req)})
        if getattr(resp, "status", None) == "success" and label.startswith("F"):
            self.fault(label)
        for m in self.monitors:
            m.after_req(self, req, label, resp)
        return resp

    def do_call(self, name: str, kwargs: Dict):
        fn = self.calls.get(name)
        if fn is None:
            raise GeneratorDefect(f"unknown call {name}")
        return fn(**kwargs)

    # -- main ----------------------------------------------------------------------------------------------------
    def workload(self):
        """Generate-and-execute (generation mode). Must only use emit()."""
        raise NotImplementedError

    def replay(self, ops: List[List]):
        for op in ops:
            self.ops.append(op)
            self.do_op(op)

    def after_build(self):
        pass

    def finish(self):
        pass

    def extra(self) -> Dict:
        return {}

    def run(self) -> Dict:
        from dst.monitors import make_monitors

        a = self.args
        t0 = time.time()
        seams.begin_run(
            entropy_seed=a.get("entropy_seed", seams.derive(self.seed, "entropy")),
            clock_script=a.get("clock") if a.get("clock") is not None else seams.clock_script_for(self.seed, a.get("clock_kind", "auto")),
            id_width=a.get("id_width", "mixed"),
            rng_seed=seams.derive(self.seed, "global_rng"),
            logging_on=False,
        )
        violation = None
        harness_error = None
        try:
            self.make_scenario()
            self.monitors = make_monitors(a.get("monitors", self.default_monitors), self)
            for m in self.monitors:
                m.install(self)
            import sys

            sys.setrecursionlimit(1000 + 300 * sum(1 for m in self.monitors if m._patches))
            try:
                self.build()
            except Violation:
                raise
            except Exception as e:  # noqa: BLE001
                info = exc_summary(e)
                raise GeneratorDefect(f"from_config rejected generated bench scenario: {info['type']}: {info['text']}\n{info['tb']}")
            for m in self.monitors:
                m.after_build(self)
            self.after_build()
            if self.replaying:
                self.replay(a["ops"])
            else:
                self.workload()
            self.finish()
            for m in self.monitors:
                m.end(self)
        except Violation as v:
            violation = v.to_json()
            violation["op_index"] = self.op_index
        except GeneratorDefect as g:
            harness_error = f"GeneratorDefect: {g}"
        finally:
            for m in self.monitors:
                try:
                    m.uninstall(self)
                except Exception:
                    pass
        out: Dict[str, Any] = {
            "seed": self.seed,
            "origin": getattr(self, "origin", None),
            "violation": violation,
            "harness_error": harness_error,
            "n_ops": len(self.ops),
            "steps": self.ticks,
            "probes": self.probes,
            "faults": self.faults_fired,
            "clock_faults": dict(seams.CLOCK.fired),
            "entropy_draws": seams.ENTROPY.draws,
            "clock_reads": seams.CLOCK.calls,
            "op_kinds": digest([(op[0], op[2] if len(op) > 2 and op[0] == "req" else (op[1] if op[0] in ("call", "probe") else "")) for op in self.ops]),
            "wall": time.time() - t0,
            "monitor_stats": {m.name: m.stats() for m in self.monitors},
            **self.extra(),
        }
        if self.scenario:
            from dst.scenario import shape_digest

            out["shape"] = shape_digest(self.scenario)
        if violation or a.get("return_case"):
            out["ops"] = self.ops
            out["scenario"] = self.scenario
            out["inventory"] = self.inv
        return out
