"""Replay a violation file in a fresh interpreter: `python -m dst.replay <file>`; exit 1 if the violation reproduces."""
from __future__ import annotations

import json
import sys


def replay_file(path: str) -> int:
    from dst.pool import exec_job

    with open(path) as f:
        rec = json.load(f)
    job = {"id": 0, "fn": rec["fn"], "args": rec["args"], "timeout": 600}
    r = exec_job(job, hashseed=rec.get("hashseed", 0))
    if r.get("status") != "ok":
        print(f"HARNESS-ERROR: replay did not complete: {r.get('status')} {r.get('error')}")
        return 2
    v = r["result"].get("violation")
    want = rec["violation"]
    if v and v["property"] == want["property"] and v["sig"] == want["sig"]:
        print(f"VIOLATION property={v['property']} replay={path}")
        print(f"  {v['clause']}: {v['msg'][:600]}")
        return 1
    print(f"replay of {path}: violation {want['sig']} did NOT reproduce (got {v['sig'] if v else None})")
    return 0


if __name__ == "__main__":
    sys.exit(replay_file(sys.argv[1]))
