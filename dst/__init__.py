"""Deterministic simulation with fault injection for PrimAITE (see /verif/DESIGN.md)."""
