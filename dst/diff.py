"""E3: differential runner. A *case* is a list of executions of the same (scenario, concrete ops) under controlled
differences (interpreter / PYTHONHASHSEED / entropy stream / clock script / logging; dirty history vs fresh; second
instance vs alone); the oracle compares their canonical event logs.

Process model: one zygote per PYTHONHASHSEED (DESIGN.md 3.5); every execution is still one forked process.
"""
from __future__ import annotations

import argparse
import copy
import hashlib
import json
import os
import sys
import time
from typing import Any, Callable, Dict, Iterable, List, Optional, Tuple

from dst.run import KNOWN_PATH, NCPU, VERIF_ROOT, load_known, sig_matches


def first_difference(a: Any, b: Any, path: str = "") -> Optional[Tuple[str, Any, Any]]:
    if type(a) != type(b):
        return path, a, b
    if isinstance(a, dict):
        ka, kb = list(a.keys()), list(b.keys())
        if set(ka) != set(kb):
            return path + "/<keys>", sorted(map(str, ka)), sorted(map(str, kb))
        for k in ka:
            d = first_difference(a[k], b[k], f"{path}/{k}")
            if d:
                return d
        return None  # the order of keys within a mapping carries no meaning; the order of list items does
    if isinstance(a, list):
        if len(a) != len(b):
            return path + "/<len>", len(a), len(b)
        for i, (x, y) in enumerate(zip(a, b)):
            d = first_difference(x, y, f"{path}/{i}")
            if d:
                return d
        return None
    if a != b:
        return path, a, b
    return None


def abstract_diff_path(path: str) -> str:
    import re

    parts = [p for p in path.split("/") if p]
    out = []
    for i, p in enumerate(parts):
        if i == 0:
            continue  # step index
        out.append(re.sub(r"\d+", "#", p))
    return "/".join(out[:6])


class DiffSpec:
    prop = "C00"
    fn = "dst.driver_env:run_e1"
    preload = ("dst.driver_env", "dst.monitors", "dst.scenario")
    timeout = 240
    rule = ""
    assumptions: List[str] = []
    components_real = ["primaite (whole package, from /repo/src working tree)", "gymnasium", "numpy", "pydantic"]
    components_stubbed = ["torch import in all but the real-torch variant", "wall clock (FakeClock)", "uuid4/secrets (seeded Entropy)"]
    required_probes: List[str] = []

    def budget(self, tier: str) -> float:
        return 100.0 if tier == "quick" else 1500.0

    def variants(self) -> List[Dict]:
        """Executions of one case. The first is the reference (it generates the concrete ops)."""
        raise NotImplementedError

    def cases(self, tier: str, base_seed: int) -> Iterable[Dict]:
        raise NotImplementedError

    def reference_args(self, case: Dict, variant: Dict) -> Dict:
        a = copy.deepcopy(case)
        a.update({"return_case": True, "record_log": True})
        a.update(variant.get("args", {}))
        return a

    def variant_args(self, case: Dict, ref_result: Dict, variant: Dict) -> Dict:
        a = copy.deepcopy(case)
        a.pop("profile", None)
        a.pop("shipped", None)
        a.pop("schedule_dir", None) if not case.get("schedule_dir") else None
        a["scenario"] = ref_result["scenario"] if not case.get("schedule_dir") else None
        a["inventory"] = ref_result.get("inventory")
        a["origin"] = ref_result.get("origin")
        a["ops"] = self.variant_ops(ref_result["ops"], variant)
        a["record_log"] = True
        a.update(variant.get("args", {}))
        return a

    def variant_ops(self, ops: List, variant: Dict) -> List:
        return ops

    def nontrivial(self, ref: Dict) -> bool:
        return ref.get("steps", 0) >= 5

    def distinct_key(self, ref: Dict) -> str:
        return f"{ref.get('shape')}|{ref.get('op_kinds')}"

    def compare_logs(self, ref: Dict, var: Dict) -> Optional[Tuple[str, Any, Any]]:
        return first_difference(ref.get("log"), var.get("log"))


class DiffRunner:
    def __init__(self, spec: DiffSpec, tier: str, seed: int, max_cases: Optional[int] = None):
        self.spec = spec
        self.tier = tier
        self.seed = seed
        self.max_cases = max_cases
        self.t0 = time.time()
        self.zy: Dict[Tuple[int, bool], Any] = {}
        self.known = load_known(spec.prop)
        self.known_hits: Dict[str, Dict] = {}
        self.harness_errors: List[Dict] = []
        self.violations: List[Dict] = []
        self.refs: List[Dict] = []
        self.comparisons = 0
        self.foreign: Dict[str, int] = {}
        self.inner_violations: Dict[str, int] = {}

    # -- zygotes -------------------------------------------------------------------------------------------------
    def zygote(self, hashseed: int, real_torch: bool = False):
        from dst.pool import Zygote

        key = (hashseed, real_torch)
        if key not in self.zy:
            nv = max(1, len({(v.get("hashseed", 0), v.get("real_torch", False)) for v in self.spec.variants()}))
            self.zy[key] = Zygote(hashseed=hashseed, workers=max(2, min(NCPU, 16) // min(nv, 3)), preload=self.spec.preload, real_torch=real_torch)
        return self.zy[key]

    def close(self):
        for z in self.zy.values():
            z.close()
        self.zy = {}

    def run_batch(self, items: List[Tuple[Dict, Dict]]) -> List[Optional[Dict]]:
        """items: (variant, args). Returns results (None on harness failure), concurrently over the zygotes."""
        by_z: Dict[Any, List[int]] = {}
        for i, (variant, args) in enumerate(items):
            z = self.zygote(variant.get("hashseed", 0), variant.get("real_torch", False))
            z.submit({"id": i, "fn": self.spec.fn, "args": args, "timeout": self.spec.timeout})
            by_z.setdefault(z, []).append(i)
        out: List[Optional[Dict]] = [None] * len(items)
        for z in by_z:
            for r in z.results():
                if r.get("status") == "ok" and not r["result"].get("harness_error"):
                    out[r["id"]] = r["result"]
                else:
                    self.harness_errors.append({"status": r.get("status"), "error": r.get("error") or (r.get("result") or {}).get("harness_error"), "tb": r.get("tb")})
        return out

    # -- one round ------------------------------------------------------------------------------------------------
    def classify(self, case: Dict, ref: Dict, variant: Dict, var: Optional[Dict]) -> Optional[Dict]:
        if var is None:
            return None
        self.comparisons += 1
        if var.get("violation") and not ref.get("violation"):
            v = var["violation"]
            inner = (v.get("detail") or {}).get("exc") or {}
            where = (inner.get("where") or "").split(":")[0]
            short = f"{v.get('clause')}:{inner.get('type')}:{where}" if inner else v["sig"]
            return {"property": self.spec.prop, "clause": "variant-raises", "sig": f"variant-only-failure:{variant['name']}:{short}", "msg": f"variant {variant['name']} failed where the reference did not: {v['msg']}", "detail": {"variant": variant["name"], "inner": v}}
        d = self.spec.compare_logs(ref, var)
        if d is None:
            return None
        path, a, b = d
        what = abstract_diff_path(path)
        step = path.split("/")[1] if path.startswith("/") else "?"
        return {
            "property": self.spec.prop,
            "clause": "trajectory-diverges",
            "sig": f"trajectory-diverges:{what}",
            "msg": f"log entry {step}: {what} differs between the reference ({self.spec.variants()[0]['name']}) and variant {variant['name']}: {json.dumps(a, default=str)[:300]} vs {json.dumps(b, default=str)[:300]}",
            "detail": {"variant": variant["name"], "path": path, "reference": a, "variant_value": b, "origin": ref.get("origin")},
        }

    def evaluate_cases(self, cases: List[Dict]) -> List[Tuple[Dict, Dict, Optional[Dict]]]:
        """Returns (case, reference result, violation-or-None) per case."""
        variants = self.spec.variants()
        refs = self.run_batch([(variants[0], self.spec.reference_args(c, variants[0])) for c in cases])
        items, index = [], []
        own: Dict[int, Dict] = {}
        for ci, (c, ref) in enumerate(zip(cases, refs)):
            if ref is None:
                continue
            if ref.get("violation"):
                k = f"{ref['violation']['property']}:{ref['violation']['sig']}"
                self.inner_violations[k] = self.inner_violations.get(k, 0) + 1
                if ref["violation"]["property"] == self.spec.prop:
                    # this property's own monitor objected inside the reference run: a violation of this check
                    rv = ref["violation"]
                    own[ci] = {"property": self.spec.prop, "clause": rv.get("clause"), "sig": rv["sig"], "msg": f"in the reference run: {rv['msg']}", "detail": rv.get("detail") or {}}
                    continue
                # (a violation of another property's monitor / a crash in the reference is not this check's business)
            for v in variants[1:]:
                va = self.spec.variant_args(c, ref, v)
                if va is None:
                    continue  # variant does not apply to this kind of case
                items.append((v, va))
                index.append((ci, v))
        vars_ = self.run_batch(items)
        out = []
        viol_by_case: Dict[int, Dict] = {}
        for (ci, v), res in zip(index, vars_):
            viol = self.classify(cases[ci], refs[ci], v, res)
            if not viol:
                continue
            k = next((k for k in self.known if sig_matches(k, viol)), None)
            if k is not None:
                # a listed finding in one variant must not hide an unlisted violation in another variant of the case
                self.known_hits.setdefault(k["id"], {"finding": k, "count": 0})["count"] += 1
                viol_by_case.setdefault(ci, viol)
            elif ci not in viol_by_case or any(sig_matches(k2, viol_by_case[ci]) for k2 in self.known):
                viol_by_case[ci] = viol
        for ci, viol in own.items():
            k = next((k for k in self.known if sig_matches(k, viol)), None)
            if k is not None:
                self.known_hits.setdefault(k["id"], {"finding": k, "count": 0})["count"] += 1
            viol_by_case[ci] = viol
        for ci, (c, ref) in enumerate(zip(cases, refs)):
            if ref is not None:
                out.append((c, ref, viol_by_case.get(ci)))
        return out

    # -- shrinking -------------------------------------------------------------------------------------------------
    def shrink(self, case: Dict, ref: Dict, viol: Dict, budget_s: float = 120.0) -> Tuple[Dict, Dict, Dict]:
        """ddmin over the concrete op list of the reference; a candidate is kept if the same signature reappears."""
        sig = viol["sig"]
        t_end = time.time() + budget_s
        base_case = copy.deepcopy(case)
        base_case.pop("profile", None)
        base_case.pop("shipped", None)
        if not case.get("schedule_dir"):  # schedule directories are re-read from disk by every execution
            base_case.update({"scenario": ref["scenario"], "inventory": ref.get("inventory"), "origin": ref.get("origin")})
        ops = ref["ops"]
        cur = (dict(base_case, ops=ops), ref, viol)

        def noop(op):
            return ["step", 0] + op[2:3] if op[0] == "step" and op[1] != 0 else None

        # anchors are never dropped or altered: the first reset(seed=s) (the re-seed variant replays the list from it),
        # a "mark" and the reset that follows it (they delimit the compared part)
        def protected(o_list):
            prot = set()
            if o_list and o_list[0][0] == "reset":
                prot.add(0)
            for i, o in enumerate(o_list):
                if o[0] == "mark":
                    prot.update({i, i + 1})
            return prot

        for phase in ("noop", "drop"):
            n = 2
            while time.time() < t_end:
                prot = protected(ops)
                free = [i for i in range(len(ops)) if i not in prot]
                if len(free) < 1:
                    break
                size = max(1, len(free) // n)
                cands = []
                for lo in range(0, len(free), size):
                    chunk = set(free[lo : lo + size])
                    if phase == "noop":
                        new = [(noop(o) or o) if i in chunk else o for i, o in enumerate(ops)]
                    else:
                        new = [o for i, o in enumerate(ops) if i not in chunk]
                    if new != ops and new:
                        cands.append(new)
                if not cands:
                    if size == 1:
                        break
                    n = min(len(free), n * 2)
                    continue
                res = self.evaluate_cases([dict(base_case, ops=c) for c in cands[:12]])
                hit = next(((c, r, v) for (c, r, v) in res if v and v["sig"] == sig), None)
                if hit:
                    cur = hit
                    ops = hit[1]["ops"]
                    n = max(2, n - 1)
                else:
                    if size == 1:
                        break
                    n = min(len(free), n * 2)
        return cur

    # -- main ----------------------------------------------------------------------------------------------------
    def run(self) -> int:
        spec = self.spec
        deadline = self.t0 + spec.budget(self.tier)
        all_cases = list(spec.cases(self.tier, self.seed))
        if self.max_cases:
            all_cases = all_cases[: self.max_cases]
        # known findings first (deterministic KNOWN-FINDING lines)
        for k in self.known:
            if not k.get("replay"):
                continue
            with open(os.path.join(VERIF_ROOT, k["replay"])) as f:
                rec = json.load(f)
            before = self.known_hits.get(k["id"], {}).get("count", 0)
            res = self.evaluate_cases([rec["case"]])
            v = res[0][2] if res else None
            if self.known_hits.get(k["id"], {}).get("count", 0) > before:
                pass
            else:
                print(f"NOTE: known finding {k['id']} did not reproduce from {k['replay']} (got {v['sig'] if v else 'no violation'})")
        batch = 24
        unknown: Dict[str, Tuple[Dict, Dict, Dict]] = {}
        i = 0
        while i < len(all_cases) and time.time() < deadline:
            chunk = all_cases[i : i + batch]
            i += batch
            for c, ref, v in self.evaluate_cases(chunk):
                self.refs.append({k: ref.get(k) for k in ("seed", "origin", "steps", "episodes", "faults", "probes", "shape", "op_kinds", "clock_faults", "n_ops")})
                if not v:
                    continue
                k = next((k for k in self.known if sig_matches(k, v)), None)
                if k is None:
                    unknown.setdefault(v["sig"], (c, ref, v))
        exit_code = 0
        lines = []
        harness_msgs = []
        for sig, (c, ref, v) in list(unknown.items())[:3]:
            try:
                mc, mref, mv = self.shrink(c, ref, v)
                # confirm: evaluate the minimised case twice more
                again = self.evaluate_cases([mc, mc])
                if not all(x[2] and x[2]["sig"] == sig for x in again) or len(again) != 2:
                    harness_msgs.append(f"minimised case for {sig} did not reproduce twice")
                    continue
                rdir = os.path.join(VERIF_ROOT, "replays", spec.prop)
                os.makedirs(rdir, exist_ok=True)
                name = hashlib.sha256(json.dumps([sig, c.get("seed")], default=str).encode()).hexdigest()[:12]
                path = os.path.join(rdir, f"{name}.json")
                with open(path, "w") as f:
                    json.dump({"property": spec.prop, "kind": "diff", "module": spec.__class__.__module__, "violation": mv, "case": mc, "variants": spec.variants()}, f, indent=1, default=str)
                print(f"VIOLATION property={spec.prop} replay={path}")
                print(f"  {mv['clause']}: {mv['msg'][:500]} (seed {c.get('seed')}, {len(mc['ops'])} ops after shrinking)")
                lines.append(path)
                exit_code = 1
            except Exception as e:  # noqa: BLE001
                import traceback

                harness_msgs.append(f"shrink/confirm failed for {sig}: {type(e).__name__}: {e}\n{traceback.format_exc()[-800:]}")
        for sig in list(unknown)[3:]:
            print(f"  (further distinct violation signature not minimised: {sig})")
        self.close()
        for k, h in sorted(self.known_hits.items()):
            print(f"KNOWN-FINDING: property={spec.prop} {h['finding']['what_fails']} [id={k}, seen in {h['count']} comparisons]")
        n_eval = len(self.refs)
        if harness_msgs or n_eval == 0 or len(self.harness_errors) > max(2, 0.05 * max(1, n_eval * len(spec.variants()))):
            for m in harness_msgs:
                print("HARNESS-ERROR:", m)
            for h in self.harness_errors[:4]:
                print("HARNESS-ERROR:", h.get("status"), (h.get("error") or "")[:500], (h.get("tb") or "")[-800:])
            if exit_code == 0:
                exit_code = 2
        wall = time.time() - self.t0
        distinct = {spec.distinct_key(r) for r in self.refs if spec.nontrivial(r)}
        probes: Dict[str, int] = {}
        faults: Dict[str, int] = {}
        clockf: Dict[str, int] = {}
        for r in self.refs:
            for src, dst in ((r.get("probes"), probes), (r.get("faults"), faults), (r.get("clock_faults"), clockf)):
                for k, v in (src or {}).items():
                    dst[k] = dst.get(k, 0) + v
        vac = [p for p in spec.required_probes if probes.get(p, 0) == 0]
        for p in vac:
            print(f"VACUOUS probe={p}")
        evidence = {
            "property_id": spec.prop,
            "tier": self.tier,
            "seed": self.seed,
            "level": "exploration",
            "coverage": {
                "evaluations": n_eval,
                "distinct_nontrivial": len(distinct),
                "rule": spec.rule,
                "samples": self.refs[:2] or [{"note": "no case completed"}],
                "comparisons": self.comparisons,
                "executions": n_eval + self.comparisons,
                "variants": spec.variants(),
                "runs_per_hour": round((n_eval + self.comparisons) / max(wall, 1e-6) * 3600),
                "simulated_ticks": sum(r.get("steps", 0) or 0 for r in self.refs) * len(spec.variants()),
                "faults_fired": faults,
                "clock_faults_fired_in_reference": clockf,
                "probes": probes,
                "vacuous_probes": vac,
                "known_findings_seen": {k: h["count"] for k, h in self.known_hits.items()},
                "violations_inside_reference_runs": self.inner_violations,
                "harness_errors": len(self.harness_errors),
                "components_real": spec.components_real,
                "components_stubbed": spec.components_stubbed,
            },
            "assumptions": spec.assumptions,
            "wall_s": round(wall, 2),
            "violations": len(lines),
        }
        os.makedirs(os.path.join(VERIF_ROOT, "evidence"), exist_ok=True)
        with open(os.path.join(VERIF_ROOT, "evidence", f"{spec.prop}.json"), "w") as f:
            json.dump(evidence, f, indent=1, default=str)
        print(f"{spec.prop} {self.tier}: {n_eval} cases, {self.comparisons} comparisons, {len(distinct)} distinct non-trivial, {len(self.known_hits)} known findings, {len(unknown)} new violation signatures, {len(self.harness_errors)} harness errors, {wall:.1f}s -> exit {exit_code}")
        return exit_code


def main(spec: DiffSpec, argv: Optional[List[str]] = None) -> int:
    ap = argparse.ArgumentParser()
    ap.add_argument("--tier", default=os.environ.get("VERIF_TIER", "quick"), choices=["quick", "thorough"])
    ap.add_argument("--seed", type=int, default=int(os.environ.get("VERIF_SEED", "0")))
    ap.add_argument("--max-cases", type=int, default=None)
    ap.add_argument("--sigs", action="store_true")
    ap.add_argument("--make-known", default=None, help="CASEINDEX:relative/path.json")
    a = ap.parse_args(argv)
    rn = DiffRunner(spec, a.tier, a.seed, a.max_cases)
    if a.sigs or a.make_known:
        cases = list(spec.cases(a.tier, a.seed))
        if a.make_known:
            idx, out = a.make_known.split(":", 1)
            rn.known = []
            res = rn.evaluate_cases([cases[int(idx)]])
            c, ref, v = res[0]
            if not v:
                print("no violation for that case")
                rn.close()
                return 2
            mc, mref, mv = rn.shrink(c, ref, v)
            rn.close()
            os.makedirs(os.path.dirname(os.path.join(VERIF_ROOT, out)), exist_ok=True)
            with open(os.path.join(VERIF_ROOT, out), "w") as f:
                json.dump({"property": spec.prop, "kind": "diff", "violation": mv, "case": mc}, f, indent=1, default=str)
            print("wrote", out, mv["sig"], len(mc["ops"]), "ops")
            return 0
        if a.max_cases:
            cases = cases[: a.max_cases]
        cnt: Dict[str, List] = {}
        for j in range(0, len(cases), 24):
            for c, ref, v in rn.evaluate_cases(cases[j : j + 24]):
                cnt.setdefault(v["sig"] if v else "ok", []).append(cases.index(c))
        rn.close()
        for k, v in sorted(cnt.items(), key=lambda kv: -len(kv[1])):
            print(len(v), k, v[:5])
        print("inner:", rn.inner_violations, "harness:", len(rn.harness_errors), [h.get("error") for h in rn.harness_errors[:2]])
        return 0
    code = rn.run()
    sys.stdout.flush()
    return code
