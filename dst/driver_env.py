"""E1: full PrimaiteGymEnv driver. All agents, observation / reward / mask code and the reset path run as real code.

run_e1(args) is the job function executed in a forked child (or a fresh interpreter for replay).

args:
  seed            VERIF_SEED of this run (all streams derive from it)
  profile         scenario-generator profile overrides
  scenario        explicit scenario dict (replay / shrinking)     | shipped: name of a shipped scenario file
  ops             explicit concrete op list (replay); otherwise ops are generated online and recorded concretely
  n_ops           number of ops to generate
  op_mix          weights {"step":..,"reset":..,"fault":..}
  monitors        list of monitor names (dst.monitors registry)
  entropy_seed, clock, id_width, logging_on     seam settings (default: derived from seed)
  record_log      return the canonical event log (E3 comparisons)
"""
from __future__ import annotations

import copy
import math
import os
import random
import time
from typing import Any, Dict, List, Optional

from dst import seams
from dst.core import _ID_RE, Canon, GeneratorDefect, Violation, digest, exc_summary, intify_keys, jsonable


class E1Run:
    def __init__(self, args: Dict):
        self.args = args
        self.seed = int(args.get("seed", 0))
        self.ops_rng = seams.stream(self.seed, "ops")
        self.fault_rng = seams.stream(self.seed, "faults")
        self.ops: List[List] = []
        self.probes: Dict[str, int] = {}
        self.faults_fired: Dict[str, int] = {}
        self.log: List[Any] = []
        self.canon = Canon()
        self.env = None
        self.scenario: Dict = {}
        self.inv: Dict = {}
        self.steps_since_reset = 0
        self._ambushed = set()
        self.total_steps = 0
        self.episodes = 0
        self.monitors: List[Any] = []
        self.state_digests = set()
        self.op_index = -1
        self.record_log = bool(args.get("record_log"))

    # -- probes / stats -----------------------------------------------------------------------------------------
    def probe(self, name: str, n: int = 1):
        self.probes[name] = self.probes.get(name, 0) + n

    def fault(self, kind: str):
        self.faults_fired[kind] = self.faults_fired.get(kind, 0) + 1

    # -- build -------------------------------------------------------------------------------------------------
    def make_scenario(self):
        a = self.args
        if a.get("scenario") is not None:
            self.scenario = intify_keys(copy.deepcopy(a["scenario"]))
            self.inv = intify_keys(copy.deepcopy(a.get("inventory") or {}))
            self.origin = a.get("origin", "explicit")
        elif a.get("schedule_dir"):
            # episode-scheduled scenario shipped as a directory. Reference executions hand the path to PrimaiteGymEnv;
            # "fresh" executions (schedule_episode given) build the environment from the dict a fresh scheduler yields
            # for that episode index.
            import os as _os

            from dst.scenario import IO_OFF, SHIPPED_DIR

            self.schedule_path = _os.path.join(SHIPPED_DIR, a["schedule_dir"])
            self.origin = "shipped-dir:" + a["schedule_dir"]
            if a.get("schedule_episode") is not None:
                from primaite.session.episode_schedule import build_scheduler

                self.scenario = build_scheduler(self.schedule_path)(int(a["schedule_episode"]))
                self.schedule_path = None
            else:
                self.scenario = {}
        elif a.get("shipped"):
            from dst.scenario import load_shipped

            self.scenario = load_shipped(a["shipped"], max_episode_length=a.get("max_episode_length"), seed=a.get("game_seed", self.seed % (2**31)), io=a.get("io"), tap_variation=a.get("tap_variation"), tap_fast=bool(a.get("tap_fast")), tap_zero_stage=a.get("tap_zero_stage"))
            self.origin = "shipped:" + a["shipped"] + ("+tap-variation" if a.get("tap_variation") is not None else "")
        else:
            from dst.scenario import generate

            prof = dict(a.get("profile") or {})
            if "frame_mbits" not in prof:
                prof["frame_mbits"] = measure_frame_mbits()
            self.scenario, self.inv = generate(seams.stream(self.seed, "scenario"), prof)
            self.origin = "generated"

    def build_env(self):
        import primaite
        from primaite.session.environment import PrimaiteGymEnv

        if self.args.get("io_override") is not None:
            self.scenario["io_settings"] = dict(self.args["io_override"])

        run_dir = os.environ.get("VERIF_RUN_DIR")
        if run_dir:
            from pathlib import Path

            primaite.PRIMAITE_PATHS.user_sessions_path = Path(run_dir) / "sessions"
        if getattr(self, "schedule_path", None):
            path = self.schedule_path
            if self.args.get("io_override") is not None:
                # the directory's own base scenario decides the output settings: a variant works on a scratch copy of
                # the directory whose base scenario ends with another io_settings block (the last one counts)
                import shutil

                import yaml

                path = os.path.join(run_dir or "/tmp", "schedule_copy")
                shutil.rmtree(path, ignore_errors=True)
                shutil.copytree(self.schedule_path, path)
                with open(os.path.join(path, "schedule.yaml")) as f:
                    base = yaml.safe_load(f)["base_scenario"]
                with open(os.path.join(path, base), "a") as f:
                    f.write("\n" + yaml.safe_dump({"io_settings": dict(self.args["io_override"])}))
            self.env = PrimaiteGymEnv(path)
            sched = self.env.episode_scheduler
            self.scenario = sched(0)
        else:
            self.env = PrimaiteGymEnv(copy.deepcopy(self.scenario))
        return self.env

    # -- op execution ------------------------------------------------------------------------------------------------
    def do_op(self, op: List):
        kind = op[0]
        self.op_index += 1
        if kind == "step":
            self.do_step(int(op[1]), op[2] if len(op) > 2 else None, op[3] if len(op) > 3 else None)
        elif kind == "reset":
            self.do_reset(op[1])
        elif kind == "req":
            self.do_req(op[1], op[2] if len(op) > 2 else "fault")
        elif kind == "mark":
            # start of the compared part of the history (E3): forget the log and the identifier numbering so far
            self.log = []
            self.canon = Canon()
            self.episode_at_mark = self.env.episode_counter + 1  # index of the episode the next reset builds
        elif kind in ("b_new", "b_reset", "b_step", "b_close"):
            self.do_b(op)
        elif kind == "recable":
            self.do_recable(op[1], op[2])
        else:
            raise GeneratorDefect(f"unknown op {op}")

    def do_recable(self, hostname: str, port: int):
        """Run-time re-cabling through the public Network API: the cable on that interface is pulled and plugged in
        again (same ends, same bandwidth)."""
        net = self.env.game.simulation.network
        node = net.get_node_by_hostname(hostname)
        nic = node.network_interface.get(port) if node is not None else None
        link = getattr(nic, "_connected_link", None)
        if link is None:
            return
        a, b, bw = link.endpoint_a, link.endpoint_b, link.bandwidth
        try:
            net.remove_link(link)
            net.connect(endpoint_a=a, endpoint_b=b, bandwidth=bw)
        except Exception as e:  # noqa: BLE001
            info = exc_summary(e)
            raise Violation("C01", "recable-raises", f"pulling and re-plugging the cable on {hostname} port {port} raised {info['type']}: {info['text']}", sig=f"recable-raises:{info['type']}:{info['where']}", detail={"exc": info})
        self.fault("F8_recable")
        for m in self.monitors:
            m.after_req(self, [], "F8_recable", None)

    def do_step(self, action: int, others: Optional[Dict] = None, inject: Optional[List] = None):
        env = self.env
        if inject:
            # requests applied inside the tick, right after the agents' own actions - the same window in which the
            # actions of further agents would be applied (count-pushing workloads, in-flight faults)
            game = env.game
            orig = game.apply_agent_actions

            def apply_agent_actions_with_injection():
                orig()
                for req, label in inject:
                    resp = game.simulation.apply_request(copy.deepcopy(req))
                    if getattr(resp, "status", None) == "success":
                        self.fault(label)

            game.apply_agent_actions = apply_agent_actions_with_injection
        # scenarios with several proxy agents (MARL configs): the gymnasium wrapper only feeds the first one; the
        # others get their action through the same public ProxyAgent.store_action call the MARL wrapper uses
        for name, agent in env.game.rl_agents.items():
            if name != env._agent_name:
                agent.store_action(int((others or {}).get(name, 0)))
        for m in self.monitors:
            m.before_step(self, action)
        try:
            try:
                ret = env.step(action)
            finally:
                if inject:
                    try:
                        del env.game.apply_agent_actions
                    except AttributeError:
                        pass
        except Violation:
            raise
        except Exception as e:  # noqa: BLE001
            for m in self.monitors:
                m.on_step_exception(self, action, e)
            act = env.agent.action_manager.action_map.get(action, ("?", {}))
            info = exc_summary(e)
            raise Violation(
                "C01",
                "step-raises",
                f"env.step({action}) [{act[0]} {act[1]}] raised {info['type']}: {info['text']}",
                sig=f"step-raises:{info['type']}:{info['where']}",
                detail={"exc": info, "action": jsonable(act), "origin": self.origin},
            )
        self.steps_since_reset += 1
        self.total_steps += 1
        for m in self.monitors:
            m.after_step(self, action, ret)
        if self.record_log:
            self.log_step(ret)

    def do_reset(self, seed: Optional[int]):
        env = self.env
        for m in self.monitors:
            m.before_reset(self, seed)
        old_objs = component_objects(env.game) if self.args.get("identity_walk") else None
        try:
            ret = env.reset(seed=seed)
        except Violation:
            raise
        except Exception as e:  # noqa: BLE001
            for m in self.monitors:
                m.on_step_exception(self, None, e)
            info = exc_summary(e)
            raise Violation("C01", "reset-raises", f"env.reset(seed={seed}) raised {info['type']}: {info['text']}", sig=f"reset-raises:{info['type']}:{info['where']}", detail={"exc": info, "origin": self.origin})
        self.steps_since_reset = 0
        self._ambushed = set()
        self._flap = None
        self.episodes += 1
        self.fault("F6_reset")
        if old_objs is not None:
            new_objs = component_objects(env.game)
            shared = [type(o).__name__ for i, o in new_objs.items() if i in old_objs]
            self.probe("identity_walk_objects", len(new_objs))
            if shared:
                kinds = sorted(set(shared))
                raise Violation("C04", "component-object-survives-reset", f"{len(shared)} simulation component objects of the new game are also reachable from the previous game: {kinds[:8]}", sig="component-object-survives-reset:" + ",".join(kinds[:4]), detail={"kinds": kinds})
        for m in self.monitors:
            m.after_reset(self, seed, ret)
        if self.record_log:
            self.log.append({"reset": seed, "obs": self.canon.obj(jsonable(self.env.agent.observation_manager.current_observation))})

    def do_req(self, req: List, label: str):
        sim = self.env.game.simulation
        for m in self.monitors:
            m.before_req(self, req, label)
        try:
            resp = sim.apply_request(copy.deepcopy(req))
        except Violation:
            raise
        except Exception as e:  # noqa: BLE001
            info = exc_summary(e)
            raise Violation("C05", "request-raises", f"apply_request({req}) raised {info['type']}: {info['text']}", sig=f"request-raises:{info['type']}:{info['where']}", detail={"exc": info, "request": jsonable(req)})
        if getattr(resp, "status", None) == "success":
            self.fault(label)
        for m in self.monitors:
            m.after_req(self, req, label, resp)
        if self.record_log:
            self.log.append({"req": self.canon.obj(jsonable(req)), "status": getattr(resp, "status", None)})

    # -- second environment instance in the same process (C04b) ------------------------------------------------------
    def do_b(self, op: List):
        """Ops on a second instance B. The three process-global RNG states are saved/restored around every B operation
        so that what is compared is state leakage, not the (inherent) sharing of the global RNGs."""
        import random as _random

        import numpy as np

        from dst.core import intify_keys

        st = (_random.getstate(), np.random.get_state())
        kind = op[0]
        try:
            if kind == "b_new":
                from primaite.session.environment import PrimaiteGymEnv

                self.env_b = PrimaiteGymEnv(intify_keys(copy.deepcopy(op[1])))
                self.fault("F6_second_instance")
            elif getattr(self, "env_b", None) is None:
                return
            elif kind == "b_reset":
                self.env_b.reset(seed=op[1] if len(op) > 1 else None)
            elif kind == "b_step":
                self.env_b.step(int(op[1]) % self.env_b.action_space.n)
                self.probe("b_steps")
            elif kind == "b_close":
                self.env_b.close()
                self.env_b = None
        except Violation:
            raise
        except Exception as e:  # noqa: BLE001
            info = exc_summary(e)
            raise Violation("C04", "second-instance-raises", f"instance B {kind} raised {info['type']}: {info['text']}", sig=f"second-instance-raises:{kind}:{info['type']}:{info['where']}", detail={"exc": info})
        finally:
            _random.setstate(st[0])
            np.random.set_state(st[1])

    def log_step(self, ret):
        obs, reward, term, trunc, info = ret
        agents = {}
        for name, agent in self.env.game.agents.items():
            h = agent.history[-1]
            agents[name] = [h.action, jsonable(h.parameters), jsonable(h.request), h.response.status, jsonable(h.response.data), h.reward]
        # the nested observation carries the same information as a flattened one and lets a divergence be located
        nested = self.env.agent.observation_manager.current_observation
        entry = {"obs": jsonable(nested), "reward": reward, "trunc": trunc, "agents": agents}
        if self.args.get("record_state"):
            entry["state"] = self.node_state_digests()
        self.log.append(self.canon.obj(entry))

    def node_state_digests(self) -> Dict:
        """Per-node digests of the canonicalised public state (Simulation.describe_state): part of the compared log in
        the isolation checks, so that a leak that has not reached an observation yet is still seen."""
        st = jsonable(self.env.game.simulation.describe_state())
        out = {}
        if self.args.get("record_state") == "full":
            return {"nodes": st["network"]["nodes"], "<links>": st["network"]["links"]}
        for name, ns in st["network"]["nodes"].items():
            out[name] = digest(Canon().obj(ns))
        out["<links>"] = digest(Canon().obj(st["network"]["links"]))
        return out

    # -- op generation -----------------------------------------------------------------------------------------------
    def gen_op(self) -> List:
        r = self.ops_rng
        mix = self.args.get("op_mix") or {"step": 0.86, "reset": 0.04, "fault": 0.10}
        x = r.random() * sum(mix.values())
        kind = "step"
        for k, w in mix.items():
            if x < w:
                kind = k
                break
            x -= w
        env = self.env
        if self.args.get("ambush"):
            # a quiet defender that waits for a scripted agent to install an application and removes it before the
            # agent's next action: interference placed inside a multi-action stage instead of uniformly in time
            op = self.gen_ambush()
            if op is not None:
                return op
        if kind == "reset":
            return ["reset", r.choice([None, None, 0, r.randint(0, 10**6)])]
        if kind == "fault":
            req = self.gen_fault()
            if req is not None:
                return req
        n = env.action_space.n
        # truncation is informational in gymnasium; keep stepping a little past it now and then, otherwise reset
        if self.steps_since_reset >= env.game.options.max_episode_length + r.choice([0, 0, 1, 3]):
            return ["reset", r.choice([None, 0, r.randint(0, 10**6)])]
        op = ["step", r.randrange(n)]
        extra = {name: r.randrange(len(ag.action_manager.action_map)) for name, ag in env.game.rl_agents.items() if name != env._agent_name}
        if extra:
            op.append(extra)
        return op

    def gen_ambush(self) -> Optional[List]:
        r = self.ops_rng
        env = self.env
        net = env.game.simulation.network
        if self.steps_since_reset >= env.game.options.max_episode_length:
            return None
        for name, ag in env.game.agents.items():
            if name in env.game.rl_agents:
                continue
            acted = [i for i in ag.history if i.action != "do-nothing"]
            if not acted:
                continue
            last = acted[-1]
            key = (name, last.timestep)
            if last.action == "node-application-install" and last.response.status == "success" and key not in self._ambushed and self.args.get("ambush_mode", "uninstall") == "uninstall":
                node = net.get_node_by_hostname(last.parameters.get("node_name"))
                app = last.parameters.get("application_name")
                if node is not None and app in node.software_manager.software and r.random() < 0.6:
                    self._ambushed.add(key)
                    self.probe("fault_uninstall_of_application_just_installed_by_scripted_agent")
                    return ["req", ["network", "node", node.config.hostname, "software_manager", "application", "uninstall", app], "F4_uninstall"]
        # third kind: once a scripted agent has started its beacon, the beacon's host is switched off for good; the
        # agent keeps talking to a C2 server whose beacon has gone silent
        if self.args.get("ambush_mode") == "c2cut":
            for name, ag in env.game.agents.items():
                if name in env.game.rl_agents:
                    continue
                acted = [i for i in ag.history if i.action != "do-nothing"]
                if acted and acted[-1].action == "node-application-execute" and acted[-1].parameters.get("application_name") == "c2-beacon" and acted[-1].response.status == "success" and (name, "cut") not in self._ambushed:
                    host = acted[-1].parameters.get("node_name")
                    if host and net.get_node_by_hostname(host) is not None:
                        self._ambushed.add((name, "cut"))
                        self.probe("fault_beacon_host_switched_off_after_c2_established")
                        return ["req", ["network", "node", host, "shutdown"], "F1_power"]
        # second kind of interference: the node's interface is pulled for exactly one of the agent's actions (the one
        # after it has configured its beacon) and plugged in again afterwards
        flap = getattr(self, "_flap", None)
        if flap is not None:
            name, host, n_acted = flap
            ag = env.game.agents.get(name)
            acted_now = len([i for i in ag.history if i.action != "do-nothing"]) if ag is not None else n_acted + 1
            if acted_now > n_acted:
                self._flap = None
                return ["req", ["network", "node", host, "network_interface", 1, "enable"], "F2_nic"]
        elif self.args.get("ambush_mode", "uninstall") == "flap":
            for name, ag in env.game.agents.items():
                if name in env.game.rl_agents:
                    continue
                acted = [i for i in ag.history if i.action != "do-nothing"]
                if acted and acted[-1].action == "configure-c2-beacon" and acted[-1].response.status == "success" and (name, "flap", acted[-1].timestep) not in self._ambushed and r.random() < 0.8:
                    host = acted[-1].parameters.get("node_name")
                    node = net.get_node_by_hostname(host) if host else None
                    if node is not None and 1 in node.network_interface and node.network_interface[1].enabled:
                        self._ambushed.add((name, "flap", acted[-1].timestep))
                        self._flap = (name, host, len(acted))
                        self.probe("fault_interface_pulled_for_one_scripted_action")
                        return ["req", ["network", "node", host, "network_interface", 1, "disable"], "F2_nic"]
        quiet = [k for k, v in sorted(env.agent.action_manager.action_map.items()) if v[0] == "do-nothing"]
        if quiet and r.random() < float(self.args.get("ambush")):
            op = ["step", quiet[0]]
            extra = {name: 0 for name, ag in env.game.rl_agents.items() if name != env._agent_name}
            if extra:
                op.append(extra)
            return op
        return None

    def gen_ops(self) -> List[List]:
        """One op, or a burst of requests inside one tick (count-pushing workloads of C02)."""
        push = (self.args.get("profile") or {}).get("push", 0.0)
        op = self.gen_op()
        if op[0] == "req" and self.args.get("faults_inside_steps"):
            # the fault is applied inside a tick, in the window in which the actions of further agents are applied
            # (checks whose oracle is stated "at the end of the step" for changes made by agents within steps)
            env = self.env
            step = ["step", self.ops_rng.randrange(env.action_space.n)]
            extra = {name: self.ops_rng.randrange(len(ag.action_manager.action_map)) for name, ag in env.game.rl_agents.items() if name != env._agent_name}
            step.append(extra or None)
            step.append([[op[1], op[2] if len(op) > 2 else "fault"]])
            return [step]
        if push and op[0] == "step" and self.ops_rng.random() < push:
            burst = self.gen_push()
            if burst:
                while len(op) < 3:
                    op.append(None)
                op.append([[b[1], b[2]] for b in burst])
        return [op]

    def gen_push(self) -> List[List]:
        r = self.fault_rng
        net = self.env.game.simulation.network
        hosts = [n for n in net.nodes.values() if hasattr(n, "file_system") and n.__class__.__name__ in ("Computer", "Server", "Printer")]
        if not hosts:
            return []
        node = r.choice(hosts)
        hn = node.config.hostname
        base = ["network", "node", hn]
        kind = r.choice(["create_burst", "delete_burst", "access_burst", "login_burst", "exec_burst", "transfer_burst", "restore_burst"])
        ops: List[List] = []
        named = [f for f in node.file_system.folders.values() if not _ID_RE.search(f.name)]  # concrete ops never carry opaque ids
        if not named:
            return []
        if kind == "create_burst":
            folder = r.choice(sorted(f.name for f in named))
            for k in range(r.randint(4, 7)):
                ops.append(["req", base + ["file_system", "create", "file", folder, f"burst_{self.op_index}_{k}.txt", False], "push_create"])
        elif kind == "delete_burst":
            for folder in named:
                for f in sorted(x.name for x in folder.files.values())[:6]:
                    ops.append(["req", base + ["file_system", "delete", "file", folder.name, f], "push_delete"])
        elif kind == "access_burst":
            for folder in named:
                for f in sorted(x.name for x in folder.files.values())[:2]:
                    for _ in range(r.randint(3, 12)):
                        ops.append(["req", base + ["file_system", "access", folder.name, f], "push_access"])
        elif kind == "login_burst":
            others = [n for n in hosts if n is not node]
            for o in others[:5]:
                for _ in range(r.randint(1, 3)):
                    ops.append(["req", ["network", "node", o.config.hostname, "service", "terminal", "node_session_remote_login", "admin", "admin", str(node.network_interface[1].ip_address)], "push_login"])
        elif kind == "exec_burst":
            apps = sorted(a.name for a in node.applications.values() if a.name in ("web-browser", "database-client", "dos-bot", "data-manipulation-bot", "ransomware-script"))
            if apps:
                app = r.choice(apps)
                for _ in range(r.randint(3, 12)):
                    ops.append(["req", base + ["application", app, "execute"], "push_exec"])
        elif kind == "restore_burst":
            # files deleted in earlier ticks come back in this one (file-system level restore)
            for folder in named:
                for f in sorted(x.name for x in folder.deleted_files.values())[:6]:
                    ops.append(["req", base + ["file_system", "restore", "file", folder.name, f], "push_restore"])
        elif kind == "transfer_burst":
            # several large FTP transfers in one tick: more traffic than the interface's nominal speed when links allow
            senders = [n for n in hosts if "ftp-client" in n.software_manager.software]
            servers = [n for n in hosts if "ftp-server" in n.software_manager.software]
            if senders and servers:
                src = r.choice(senders)
                big = []
                for folder in src.file_system.folders.values():
                    if _ID_RE.search(folder.name):
                        continue
                    for f in folder.files.values():
                        big.append((f.size, folder.name, f.name))
                big.sort(reverse=True)
                if big:
                    _, fo, fn = big[0]
                    dst = r.choice(servers)
                    ip = str(dst.network_interface[1].ip_address)
                    for k in range(r.randint(3, 16)):
                        ops.append(["req", ["network", "node", src.config.hostname, "service", "ftp-client", "send", {"dest_ip_address": ip, "src_folder_name": fo, "src_file_name": fn, "dest_folder_name": "incoming", "dest_file_name": f"t_{self.op_index}_{k}.bin"}], "push_transfer"])
        return ops[:40]

    def gen_fault(self) -> Optional[List]:
        """A fault = something another participant could do through the request API between two steps."""
        r = self.fault_rng
        net = self.env.game.simulation.network
        nodes = list(net.nodes.values())
        if not nodes:
            return None
        node = r.choice(nodes)
        hn = node.config.hostname
        kinds = ["F1_power", "F2_nic", "F4_service", "F4_app", "F3_acl", "FS_file"] + list(self.args.get("extra_faults") or [])
        k = r.choice(kinds)
        base = ["network", "node", hn]
        if k == "FS_cycle":
            # a folder is deleted, later restored through the file system's restore request, and files in it deleted
            cands = [n for n in nodes if getattr(n, "file_system", None) is not None and n.operating_state.name == "ON"]
            if not cands:
                return None
            node = r.choice(cands)
            base2 = ["network", "node", node.config.hostname, "file_system"]
            dead = sorted(f.name for f in node.file_system.deleted_folders.values() if not _ID_RE.search(f.name))
            live = sorted(f.name for f in node.file_system.folders.values() if not _ID_RE.search(f.name) and f.name != "root")
            x_ = r.random()
            if dead and x_ < 0.5:
                return ["req", base2 + ["restore", "folder", r.choice(dead)], k]
            if live and x_ < 0.75:
                return ["req", base2 + ["delete", "folder", r.choice(live)], k]
            withfiles = [(f.name, sorted(x.name for x in f.files.values())) for f in node.file_system.folders.values() if f.files and not _ID_RE.search(f.name)]
            if withfiles:
                fo, files = r.choice(sorted(withfiles))
                return ["req", base2 + ["delete", "file", fo, r.choice(files)], k]
            return None
        if k == "F8_recable":
            cabled = [(n.config.hostname, p) for n in nodes for p, i in n.network_interface.items() if getattr(i, "_connected_link", None) is not None and n.operating_state.name == "ON"]
            if not cabled:
                return None
            hn2, port = r.choice(sorted(cabled))
            return ["recable", hn2, port]
        if k == "F4_uninstall":
            # what a defender's node-application-remove does: the application (and every request path under it) disappears
            hosts = [n for n in nodes if getattr(n, "applications", None)]
            if not hosts:
                return None
            node = r.choice(hosts)
            # biased to land inside an operation in flight: the node a scripted agent has just acted on
            recent, pairs, fresh = [], [], []
            for ag in self.env.game.agents.values():
                for item in [i for i in getattr(ag, "history", []) if i.action != "do-nothing"][-3:]:
                    nn = (item.parameters or {}).get("node_name")
                    if isinstance(nn, str):
                        recent.append(nn)
                        an = (item.parameters or {}).get("application_name")
                        tn = net.get_node_by_hostname(nn)
                        if isinstance(an, str) and tn is not None and an in getattr(tn.software_manager, "software", {}):
                            pairs.append((nn, an))
                            if item.action == "node-application-install":
                                fresh.append((nn, an))
            recent = sorted(n for n in set(recent) if getattr(net.get_node_by_hostname(n), "applications", None))
            if recent and r.random() < 0.75:
                node = net.get_node_by_hostname(r.choice(recent))
            app = r.choice(sorted(a.name for a in node.applications.values()))
            if pairs and r.random() < 0.7:
                hn2, app = r.choice(sorted(set(pairs)))
                node = net.get_node_by_hostname(hn2)
                self.probe("fault_uninstall_of_application_in_use_by_scripted_agent")
            if fresh and r.random() < 0.8:
                # an application a scripted agent has itself just installed and is about to configure / run
                hn2, app = r.choice(sorted(set(fresh)))
                node = net.get_node_by_hostname(hn2)
                self.probe("fault_uninstall_of_application_just_installed_by_scripted_agent")
            return ["req", ["network", "node", node.config.hostname, "software_manager", "application", "uninstall", app], k]
        if k == "F1_power":
            return ["req", base + [r.choice(["shutdown", "startup", "reset", "shutdown"])], k]
        if k == "F2_nic" and node.network_interface:
            return ["req", base + ["network_interface", r.choice(list(node.network_interface)), r.choice(["disable", "enable", "disable"])], k]
        if k == "F4_service" and node.services:
            svc = r.choice(sorted(s.name for s in node.services.values()))
            return ["req", base + ["service", svc, r.choice(["stop", "start", "pause", "resume", "restart", "disable", "enable", "fix", "scan"])], k]
        if k == "F4_app" and node.applications:
            app = r.choice(sorted(a.name for a in node.applications.values()))
            return ["req", base + ["application", app, r.choice(["close", "execute", "fix", "scan"])], k]
        if k == "F3_acl" and hasattr(node, "acl"):
            if r.random() < 0.5:
                return ["req", base + ["acl", "remove_rule", r.randint(0, 23)], k]
            ips = [str(n.network_interface[1].ip_address) for n in nodes if hasattr(n.network_interface.get(1), "ip_address") and n.network_interface[1].ip_address.is_private and not n.network_interface[1].ip_address.is_loopback]
            if "acl_ip_outside_obs_list" in (self.args.get("profile") or {}).get("avoid", []):
                ips = [h["ip"] for h in self.inv.get("hosts", {}).values()] or ["ALL"]
            src = r.choice(ips + ["ALL"]) if ips else "ALL"
            dst = r.choice(ips + ["ALL"]) if ips else "ALL"
            return ["req", base + ["acl", "add_rule", r.choice(["PERMIT", "DENY"]), r.choice(["ALL", "tcp", "udp", "icmp"]), src, "NONE", r.choice(["ALL", 80, 5432]), dst, "NONE", r.choice(["ALL", 80, 5432]), r.randint(0, 21)], k]
        if k == "FS_file" and hasattr(node, "file_system") and node.file_system.folders:
            # folders named after an opaque identifier (FTP backup folders are named by the database service's uuid)
            # are skipped: a concrete op must mean the same thing in every execution it is replayed in
            names = sorted(f.name for f in node.file_system.folders.values() if not _ID_RE.search(f.name))
            if not names:
                return None
            folder = r.choice(names)
            fobj = node.file_system.get_folder(folder)
            files = sorted(f.name for f in fobj.files.values()) if fobj else []
            if files and r.random() < 0.7:
                fn = r.choice(files)
                x_ = r.random()
                if x_ < 0.2:
                    return ["req", base + ["file_system", "delete", "file", folder, fn], k]
                if x_ < 0.3:
                    # the file-system level restore (a file deleted in an earlier tick comes back in this one)
                    gone = sorted(f.name for f in fobj.deleted_files.values()) if fobj else []
                    return ["req", base + ["file_system", "restore", "file", folder, r.choice(gone) if gone else fn], k]
                return ["req", base + ["file_system", "folder", folder, "file", fn, r.choice(["corrupt", "scan", "repair", "restore"])], k]
            if r.random() < 0.1 and folder != "root":
                return ["req", base + ["file_system", r.choice(["delete", "restore"]), "folder", folder], k]
            return ["req", base + ["file_system", "folder", folder, r.choice(["scan", "repair", "restore"])], k]
        return None

    # -- main -------------------------------------------------------------------------------------------------------
    def run(self) -> Dict:
        from dst.monitors import make_monitors

        a = self.args
        t0 = time.time()
        seams.begin_run(
            entropy_seed=a.get("entropy_seed", seams.derive(self.seed, "entropy" + str(a.get("entropy_salt", "")))),
            clock_script=a.get("clock") if a.get("clock") is not None else seams.clock_script_for(self.seed, a.get("clock_kind", "auto")),
            id_width=a.get("id_width", "mixed"),
            rng_seed=seams.derive(self.seed, "global_rng"),
            logging_on=bool(a.get("logging_on")),
        )
        violation = None
        harness_error = None
        try:
            self.make_scenario()
            self.monitors = make_monitors(a.get("monitors", []), self)
            for m in self.monitors:
                m.install(self)
            # wrappers add Python frames to the (synchronous, recursive) delivery path; keep the headroom the
            # unwrapped code has under the default limit of 1000 so that monitors do not cause RecursionErrors
            import sys

            sys.setrecursionlimit(1000 + 300 * sum(1 for m in self.monitors if m._patches))
            if a.get("pre_b"):
                # a second instance that lives and dies BEFORE this environment is constructed (C04b)
                self.env_b = None
                self.do_b(["b_new", a["pre_b"]["scenario"]])
                for op in a["pre_b"].get("ops", []):
                    self.do_b(op)
                self.do_b(["b_close"])
            try:
                self.build_env()
            except Violation:
                raise
            except Exception as e:  # noqa: BLE001
                info = exc_summary(e)
                if self.origin.startswith("shipped"):
                    raise Violation("C01", "construct-raises", f"PrimaiteGymEnv({self.origin}) raised {info['type']}: {info['text']}", sig=f"construct-raises:{info['type']}:{info['where']}", detail={"exc": info})
                raise GeneratorDefect(f"from_config rejected generated scenario: {info['type']}: {info['text']}\n{info['tb']}")
            for m in self.monitors:
                m.after_build(self)
            if a.get("ops") is not None:
                for op in a["ops"]:
                    self.ops.append(op)
                    self.do_op(op)
            else:
                # gymnasium contract: reset before the first step
                first = ["reset", None] if self.ops_rng.random() < 0.8 else None
                if a.get("first_reset_seed") is not None:
                    first = ["reset", int(a["first_reset_seed"])]
                n_ops = int(a.get("n_ops", 40))
                i = 0
                mark_at = a.get("mark_at")
                while i < n_ops:
                    if mark_at is not None and i >= mark_at:
                        # end of the dirtying history: from here on the log is compared with a fresh environment's (C04a)
                        batch = [["mark"], ["reset", int(a.get("mark_reset_seed", 0))]]
                        mark_at = None
                        if a.get("no_reset_after_mark"):
                            mix = dict(a.get("op_mix") or {"step": 0.86, "reset": 0.04, "fault": 0.10})
                            mix["step"] = mix.get("step", 0) + mix.get("reset", 0)
                            mix["reset"] = 0.0
                            a["op_mix"] = mix
                    else:
                        batch = [first] if (i == 0 and first) else self.gen_ops()
                    for op in batch:
                        self.ops.append(op)
                        self.do_op(op)
                        i += 1
            for m in self.monitors:
                m.end(self)
        except Violation as v:
            violation = v.to_json()
            violation["op_index"] = self.op_index
        except GeneratorDefect as g:
            harness_error = f"GeneratorDefect: {g}"
        finally:
            for m in self.monitors:
                try:
                    m.uninstall(self)
                except Exception:
                    pass
            try:
                if self.env is not None:
                    from primaite.simulator.system.core.packet_capture import PacketCapture

                    PacketCapture.clear()
            except Exception:
                pass
        out: Dict[str, Any] = {
            "seed": self.seed,
            "origin": getattr(self, "origin", None),
            "violation": violation,
            "harness_error": harness_error,
            "n_ops": len(self.ops),
            "steps": self.total_steps,
            "episodes": self.episodes,
            "probes": self.probes,
            "faults": self.faults_fired,
            "clock_faults": dict(seams.CLOCK.fired),
            "entropy_draws": seams.ENTROPY.draws,
            "clock_reads": seams.CLOCK.calls,
            "op_kinds": digest([op[0] if op[0] != "req" else (op[0], op[2] if len(op) > 2 else "") for op in self.ops]),
            "wall": time.time() - t0,
            "monitor_stats": {m.name: m.stats() for m in self.monitors},
        }
        if self.scenario:
            from dst.scenario import shape_digest

            out["shape"] = shape_digest(self.scenario)
        if violation or a.get("return_case"):
            out["ops"] = self.ops
            out["scenario"] = self.scenario
            out["inventory"] = self.inv
        if getattr(self, "episode_at_mark", None) is not None:
            out["episode_at_mark"] = self.episode_at_mark
        if self.record_log:
            out["log"] = self.log
            out["log_digest"] = digest(self.log)
        return out


def component_objects(game) -> Dict[int, Any]:
    """id -> object for every SimComponent / agent-side stateful object reachable from a game (identity walk, C04)."""
    from primaite.game.agent.interface import AbstractAgent
    from primaite.simulator.core import SimComponent

    seen: Dict[int, Any] = {}
    found: Dict[int, Any] = {}
    stack = [game]
    import enum
    import types

    while stack:
        o = stack.pop()
        if id(o) in seen or o is None or isinstance(o, (str, bytes, int, float, bool, enum.Enum, type, types.FunctionType, types.MethodType, types.ModuleType)):
            continue
        seen[id(o)] = o
        if isinstance(o, (SimComponent, AbstractAgent)):
            found[id(o)] = o
        if isinstance(o, dict):
            stack.extend(o.values())
            continue
        if isinstance(o, (list, tuple, set, frozenset)):
            stack.extend(o)
            continue
        mod = type(o).__module__ or ""
        if not mod.startswith("primaite"):
            continue
        d = getattr(o, "__dict__", None)
        if d:
            stack.extend(d.values())
        priv = getattr(o, "__pydantic_private__", None)
        if priv:
            stack.extend(priv.values())
        extra = getattr(o, "__pydantic_extra__", None)
        if extra:
            stack.extend(extra.values())
    return found


_FRAME_MBITS: Optional[float] = None


def measure_frame_mbits() -> float:
    """Size in Mbit of one ICMP echo frame as the real code serialises it (tight-link bandwidths are multiples of it)."""
    global _FRAME_MBITS
    if _FRAME_MBITS is None:
        from primaite.simulator.network.protocols.icmp import ICMPPacket
        from primaite.simulator.network.transmission.data_link_layer import EthernetHeader, Frame
        from primaite.simulator.network.transmission.network_layer import IPPacket

        f = Frame(
            ethernet=EthernetHeader(src_mac_addr="aa:bb:cc:dd:ee:01", dst_mac_addr="aa:bb:cc:dd:ee:02"),
            ip=IPPacket(src_ip_address="192.168.10.2", dst_ip_address="192.168.10.3", protocol="icmp"),
            icmp=ICMPPacket(identifier=12345),
            payload="x" * 32,
        )
        _FRAME_MBITS = float(f.size_Mbits)
    return _FRAME_MBITS


def run_e1(args: Dict) -> Dict:
    return E1Run(args).run()
