"""Client side of the zygote process model: start zygotes (one per PYTHONHASHSEED), feed jobs, collect results."""
from __future__ import annotations

import atexit
import json
import os
import shutil
import subprocess
import sys
import tempfile
import threading
import time
from typing import Dict, Iterable, Iterator, List, Optional

VERIF_ROOT = os.path.dirname(os.path.dirname(os.path.abspath(__file__)))
PYTHON = os.environ.get("VERIF_PYTHON", "/venv/bin/python")

_SCRATCH: Optional[str] = None


def scratch_root() -> str:
    global _SCRATCH
    if _SCRATCH is None:
        _SCRATCH = tempfile.mkdtemp(prefix="primaite_verif_")
        atexit.register(shutil.rmtree, _SCRATCH, True)
    return _SCRATCH


def child_env(hashseed: int, home: Optional[str] = None) -> Dict[str, str]:
    env = dict(os.environ)
    root = scratch_root()
    home = home or os.path.join(root, f"home_{hashseed}")
    os.makedirs(home, exist_ok=True)
    env.update(
        {
            "PYTHONHASHSEED": str(hashseed),
            "HOME": home,
            "XDG_DATA_HOME": os.path.join(home, ".xdg_data"),
            "XDG_CONFIG_HOME": os.path.join(home, ".xdg_config"),
            "XDG_STATE_HOME": os.path.join(home, ".xdg_state"),
            "XDG_CACHE_HOME": os.path.join(home, ".xdg_cache"),
            "PRIMAITE_VERIF": "1",
            "PYTHONWARNINGS": "ignore",
            "PYTHONPATH": VERIF_ROOT + os.pathsep + os.environ.get("PRIMAITE_VERIF_SRC", "/repo/src"),
            "VERIF_SCRATCH": root,
            "PYTHONDONTWRITEBYTECODE": "1",
            "OMP_NUM_THREADS": "1",
            "MKL_NUM_THREADS": "1",
            "OPENBLAS_NUM_THREADS": "1",
        }
    )
    return env


class Zygote:
    """One zygote interpreter with a fixed PYTHONHASHSEED forking one child per job."""

    def __init__(self, hashseed: int = 0, workers: int = 4, preload: Iterable[str] = (), real_torch: bool = False):
        self.hashseed = hashseed
        rfd, wfd = os.pipe()
        cmd = [PYTHON, "-u", "-m", "dst.zygote", "--workers", str(workers), "--out-fd", str(wfd), "--preload", ",".join(preload)]
        if real_torch:
            cmd.append("--real-torch")
        self.proc = subprocess.Popen(
            cmd, stdin=subprocess.PIPE, pass_fds=(wfd,), env=child_env(hashseed), cwd=VERIF_ROOT, stderr=self._stderr_sink()
        )
        os.close(wfd)
        self.out = os.fdopen(rfd, "r")
        self._lock = threading.Lock()
        self._queue: List[dict] = []
        self._cv = threading.Condition()
        self._closed = False
        self._writer = threading.Thread(target=self._feed, daemon=True)
        self._writer.start()
        first = self.out.readline()
        if not first:
            raise RuntimeError(f"zygote (hashseed {hashseed}) failed to start; see {self.stderr_path}")
        self.info = json.loads(first)
        self.submitted = 0
        self.received = 0

    def _stderr_sink(self):
        self.stderr_path = os.path.join(scratch_root(), f"zygote_{self.hashseed}_{id(self)}.stderr")
        return open(self.stderr_path, "wb")

    def _feed(self):
        while True:
            with self._cv:
                while not self._queue and not self._closed:
                    self._cv.wait()
                if self._closed and not self._queue:
                    break
                batch, self._queue = self._queue, []
            try:
                for job in batch:
                    self.proc.stdin.write((json.dumps(job) + "\n").encode())
                self.proc.stdin.flush()
            except BrokenPipeError:
                return
        try:
            self.proc.stdin.close()
        except Exception:
            pass

    def submit(self, job: dict):
        with self._cv:
            self._queue.append(job)
            self.submitted += 1
            self._cv.notify()

    def results(self) -> Iterator[dict]:
        """Yield results until every submitted job has been answered."""
        while self.received < self.submitted:
            line = self.out.readline()
            if not line:
                raise RuntimeError(f"zygote (hashseed {self.hashseed}) died; see {self.stderr_path}: {self.stderr_tail()}")
            self.received += 1
            yield json.loads(line)

    def stderr_tail(self, n: int = 2000) -> str:
        try:
            with open(self.stderr_path, "rb") as f:
                return f.read()[-n:].decode(errors="replace")
        except OSError:
            return ""

    def close(self):
        with self._cv:
            self._closed = True
            self._cv.notify()
        try:
            self.proc.wait(timeout=20)
        except subprocess.TimeoutExpired:
            self.proc.kill()


def run_jobs(jobs: List[dict], hashseed: int = 0, workers: int = 16, preload: Iterable[str] = (), deadline: Optional[float] = None, real_torch: bool = False) -> Iterator[dict]:
    """Run jobs on one zygote; yields results in completion order. Stops submitting when deadline (time.time()) passes."""
    z = Zygote(hashseed=hashseed, workers=workers, preload=preload, real_torch=real_torch)
    try:
        window = workers * 3
        it = iter(jobs)
        inflight = 0
        done_feeding = False

        def feed():
            nonlocal inflight, done_feeding
            while inflight < window and not done_feeding:
                if deadline is not None and time.time() > deadline:
                    done_feeding = True
                    break
                try:
                    z.submit(next(it))
                    inflight += 1
                except StopIteration:
                    done_feeding = True

        feed()
        while inflight:
            for res in z.results():
                inflight -= 1
                yield res
                feed()
    finally:
        z.close()


def exec_job(job: dict, hashseed: int = 0, real_torch: bool = False, timeout: int = 300) -> dict:
    """Run one job in a freshly exec'ed interpreter (no fork): the replay path."""
    env = child_env(hashseed)
    run_dir = tempfile.mkdtemp(prefix="run_", dir=scratch_root())
    env["VERIF_RUN_DIR"] = run_dir
    cmd = [PYTHON, "-m", "dst.execjob"] + (["--real-torch"] if real_torch else [])
    try:
        p = subprocess.run(cmd, input=json.dumps(job).encode(), env=env, cwd=VERIF_ROOT, capture_output=True, timeout=timeout)
    except subprocess.TimeoutExpired:
        return {"id": job.get("id"), "status": "timeout", "error": "exec timeout"}
    finally:
        shutil.rmtree(run_dir, ignore_errors=True)
    marker = b"\n@@RESULT@@"
    if marker not in p.stdout:
        return {"id": job.get("id"), "status": "died", "error": (p.stderr or b"")[-3000:].decode(errors="replace")}
    return json.loads(p.stdout.split(marker, 1)[1])
