"""Run the repository's baseline test command and compare with BASELINE.json stable_pass (used after every fix: commit)."""
import json, subprocess, sys, xml.etree.ElementTree as ET, time, os
out = "/tmp/x/junit.xml"
os.makedirs("/tmp/x", exist_ok=True)
t=time.time()
p = subprocess.run(f"cd /repo && /venv/bin/python -m pytest -ra -q -p no:cacheprovider --timeout=900 --continue-on-collection-errors --junitxml={out} -n 8 2>&1 | tail -5" if "--par" in sys.argv else f"cd /repo && /venv/bin/python -m pytest -ra -q -p no:cacheprovider --timeout=900 --continue-on-collection-errors --junitxml={out} 2>&1 | tail -5", shell=True, capture_output=True, text=True)
print(p.stdout[-800:])
base = json.load(open("/root/.vp/BASELINE.json"))
want = set(base["stable_pass"])
got = set()
for tc in ET.parse(out).getroot().iter("testcase"):
    ok = not any(ch.tag in ("failure", "error", "skipped") for ch in tc)
    if ok:
        got.add(f"{tc.get('classname')}::{tc.get('name')}")
missing = sorted(want - got)
print(f"baseline: {len(want)} stable_pass, {len(got)} passed now, missing {len(missing)}, wall {time.time()-t:.0f}s")
for m in missing[:30]:
    print("  MISSING", m)
sys.exit(1 if missing else 0)
