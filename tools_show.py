import sys, json
data=sys.stdin.read()
r=json.loads(data.split("@@RESULT@@",1)[1])
if r.get("status")!="ok":
    print(r.get("status"), r.get("error")); print(r.get("tb")); sys.exit()
res=r["result"]
for k in ("seed","origin","harness_error","n_ops","steps","episodes","probes","faults","clock_faults","wall","monitor_stats"):
    print(k, "=", json.dumps(res.get(k))[:600])
v=res.get("violation")
if v:
    print("VIOLATION", v["property"], v["clause"], v["sig"]); print(v["msg"][:1500]); 
    d=v.get("detail",{})
    if "exc" in d: print(d["exc"]["tb"])
    print("ops:", json.dumps(res.get("ops"))[:1500])
