"""Regenerate the generated tables of DESIGN.md section 11 (between the AUTO markers) from known_findings.json and
seeded/*/meta.json. Bookkeeping only; no check depends on it."""
import json, os, re, glob
ROOT = os.path.dirname(os.path.abspath(__file__))
k = json.load(open(os.path.join(ROOT, "known_findings.json")))
out = []
out.append("#### Known findings (recorded, not repaired)\n")
out.append("| id | property | what fails | why not repaired here |")
out.append("|---|---|---|---|")
for f in k["findings"]:
    out.append(f"| {f['id']} | {f['property']} | {f['what_fails']} | {f.get('why_not_fixed', 'see text above')} |")
out.append("\n#### Repaired defects (`fix:` commits in /repo, in order)\n")
out.append("| property | commit | what failed |")
out.append("|---|---|---|")
for line in k["fixed"]:
    m = re.match(r"fixed: property=(\S+) (\S+) (.*)", line)
    if m:
        out.append(f"| {m.group(1)} | {m.group(2)} | {m.group(3)} |")
out.append("\n#### Seeded changes and the checks that catch them\n")
out.append("| seeded change | file(s) touched | caught by (quick tier) | first reported clause |")
out.append("|---|---|---|---|")
for d in sorted(glob.glob(os.path.join(ROOT, "seeded", "*"))):
    meta = json.load(open(os.path.join(d, "meta.json")))
    files = sorted(set(re.findall(r"^\+\+\+ b/(\S+)", open(os.path.join(d, "patch.diff")).read(), re.M)))
    files = [f.replace("src/primaite/", "") for f in files]
    det = meta.get("detections", {})
    caught = [m for m, v in det.items() if v.get("exit") == 1]
    missed = [m for m, v in det.items() if v.get("exit") == 0]
    first = ""
    for m in caught:
        fl = det[m].get("first") or []
        if fl:
            first = fl[0].split(":")[0][:60]
            break
    status = ", ".join(caught) if caught else ("missed by " + ", ".join(missed) if missed else "not run")
    out.append(f"| {meta['id']} | {', '.join(files)} | {status} | {first} |")
text = "\n".join(out) + "\n"
p = os.path.join(ROOT, "DESIGN.md")
s = open(p).read()
a, b = "<!-- AUTO-TABLES-BEGIN -->", "<!-- AUTO-TABLES-END -->"
if a in s:
    s = s[: s.index(a) + len(a)] + "\n" + text + s[s.index(b):]
    open(p, "w").write(s)
    print("DESIGN.md tables updated")
else:
    print(text)
