"""C18 - a link never carries more than its bandwidth in a tick; loads reset every tick; down links carry nothing.
Wrappers on Link.transmit_frame / can_transmit_frame / pre_timestep and AirSpace.transmit observe every transmission of
every run; the profile makes bandwidths tight (1-6 frames) so that the admission test decides, with nested
request/reply exchanges, broadcasts, floods, FTP transfers and DoS bursts as workload. The lossy-link fault is off: every
drop is the code's own."""
from __future__ import annotations

import sys
from typing import Dict, Iterable

from dst.run import CheckSpec, main


class Spec(CheckSpec):
    prop = "C18"
    timeout = 180
    rule = (
        "one evaluation = one simulated run (E1: full environment with green/red/blue agents) on a generated topology "
        "in which 70% of the links have a bandwidth of 1-6 ICMP-frame sizes; every Link.transmit_frame call, every "
        "per-tick reset and every end of tick is checked. non-trivial = at least one link refused a frame for capacity "
        "AND at least one nested (reply-during-delivery) transmission happened; distinct = distinct (scenario-shape, "
        "op-kind trace) pairs"
    )
    assumptions = ["load and bandwidth are compared exactly (the code's own admission test is exact)"]
    required_probes = ["c18_link_refused_frame", "c18_nested_exchange", "c18_link_half_full", "c18_air_transmission", "c18_air_refused_frame"]

    def budget(self, tier: str) -> float:
        return 100.0 if tier == "quick" else 1500.0

    def nontrivial(self, res: Dict) -> bool:
        p = res.get("probes", {})
        return p.get("c18_link_refused_frame", 0) > 0 and p.get("c18_nested_exchange", 0) > 0

    def jobs(self, tier: str, base_seed: int) -> Iterable[Dict]:
        n = 600 if tier == "quick" else 12000
        mons = ["c18"]
        for i in range(n):
            seed = base_seed * 1000003 + 180000000 + i
            prof = {"tight_links": 0.7, "push": 0.1, "n_green": (1, 3), "n_red": (1, 2), "obs": i % 3 == 0}
            if i % 4 == 3:
                prof["topologies"] = ["wireless"]  # wireless channel clause: two wireless routers, channel capacity of a few frames
            job = {"seed": seed, "profile": prof, "n_ops": 40, "monitors": mons, "op_mix": {"step": 0.85, "reset": 0.03, "fault": 0.12}}
            if i % 3 == 1:
                # run-time re-cabling (cables pulled and plugged in again through the public Network API)
                job["extra_faults"] = ["F8_recable", "F8_recable", "F8_recable"]
                job["op_mix"] = {"step": 0.8, "reset": 0.02, "fault": 0.18}
            yield job
        shipped = [("data_manipulation.yaml", 40, 50), ("uc7_config.yaml", 25, 30)]
        for name, mel, nops in shipped:
            yield {"seed": base_seed * 1000003 + 918000 + len(name), "shipped": name, "max_episode_length": mel, "n_ops": nops, "monitors": mons}


if __name__ == "__main__":
    sys.exit(main(Spec()))
