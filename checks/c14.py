"""C14 - visible health changes only by scanning; fixes and scans take their set time (E2 bench, shadow records)."""
from __future__ import annotations

import sys
from typing import Dict, Iterable

from dst.run import CheckSpec, main


class Spec(CheckSpec):
    prop = "C14"
    fn = "dst.props.c14:run"
    preload = ("dst.driver_net", "dst.props.c14", "dst.scenario", "dst.monitors")
    timeout = 120
    rule = (
        "one evaluation = one bench run on 2-4 hosts with declared folders/files, every duration (fixing, folder scan, "
        "folder restore, node scan, power) drawn from {0,1,2,3}: 100-240 seeded ops - compromise/fix/scan of software, "
        "corrupt/scan/repair/restore/delete of files and folders, node scans, ticks and power events, generated so "
        "that a second compromise lands during a fix, scans overlap and power is lost in the middle of timed "
        "operations; after every op every item's (actual, visible) pair is compared with the shadow record and each "
        "change must be explained by the op log / pending timers. non-trivial = a visible value was updated by a scan "
        "AND a fix or timed scan completed; distinct = distinct (shape, op-kind trace) pairs"
    )
    assumptions = ["a timed operation may complete d or d+1 ticks after its request (same offset per kind within a run); while its node is not ON its timer is not expected to advance"]
    required_probes = ["c14_visible_updated_by_scan", "c14_actual_changed_by_event", "c14_fix_completed", "c14_folder_scan_completed", "c14_node_scan_completed"]

    def budget(self, tier: str) -> float:
        return 80.0 if tier == "quick" else 1200.0

    def nontrivial(self, res: Dict) -> bool:
        p = res.get("probes", {})
        return p.get("c14_visible_updated_by_scan", 0) > 0 and (p.get("c14_fix_completed", 0) + p.get("c14_folder_scan_completed", 0) + p.get("c14_node_scan_completed", 0)) > 0

    def jobs(self, tier: str, base_seed: int) -> Iterable[Dict]:
        n = 1500 if tier == "quick" else 40000
        for i in range(n):
            yield {"seed": base_seed * 1000003 + 140000000 + i, "n_ops": 100 if i % 4 else 240}


if __name__ == "__main__":
    sys.exit(main(Spec()))
