"""C10 - reward = weighted sum of components; shared rewards use same-step values; cyclic sharing rejected at load."""
from __future__ import annotations

import sys
from typing import Dict, Iterable

from dst.run import CheckSpec, main


class Spec(CheckSpec):
    prop = "C10"
    timeout = 180
    rule = (
        "two kinds of evaluation. (1) trajectory runs: generated scenario with 2-5 agents whose reward functions are "
        "drawn from all seven shipped components (weights incl. 0 and negatives, sticky flags) and an acyclic sharing "
        "graph of depth up to 3 in a random declaration order; after every step every agent's current reward is "
        "recomputed from ground truth (shared ones recursively from the other agent's same-step reward), and totals, "
        "history items and env.step's reward are cross-checked. (2) load probes: a sampled sharing digraph on 2-4 "
        "agents; from_config must raise iff the digraph has a directed cycle. non-trivial = some agent had a non-zero "
        "reward (trajectory) / the digraph had >= 2 edges (probe); distinct = distinct (shape, op-kind trace) pairs or "
        "distinct digraphs"
    )
    assumptions = ["sticky/non-sticky semantics as in docs/source/rewards.rst: a sticky component keeps its value until the next qualifying event, a non-sticky one is 0 in a step without one"]
    required_probes = ["c10_nonzero_shared_reward", "c10_nonzero_reward", "c10_web_codes", "c10_web_code_other_than_200_404"]
    fn = "dst.props.c10:run"
    preload = ("dst.driver_env", "dst.monitors", "dst.scenario", "dst.props.c10")

    def budget(self, tier: str) -> float:
        return 100.0 if tier == "quick" else 1500.0

    def nontrivial(self, res: Dict) -> bool:
        if res.get("kind") == "load-probe":
            return res.get("edges", 0) >= 2
        return res.get("probes", {}).get("c10_nonzero_reward", 0) > 0

    def distinct_key(self, res: Dict) -> str:
        if res.get("kind") == "load-probe":
            return "graph:" + str(res.get("graph"))
        return super().distinct_key(res)

    def jobs(self, tier: str, base_seed: int) -> Iterable[Dict]:
        n = 450 if tier == "quick" else 9000
        for i in range(n):
            seed = base_seed * 1000003 + 100000000 + i
            prof = {"obs": False, "n_green": (1, 3), "n_red": (0, 1), "reward_sharing": 1.0, "reward_rich": True, "tight_links": 0.05, "web_rich": i % 10 < 7}
            yield {"kind": "trajectory", "seed": seed, "profile": prof, "n_ops": 40, "monitors": ["c10"], "op_mix": {"step": 0.85, "reset": 0.05, "fault": 0.10}}
        shipped = [("data_manipulation.yaml", 60, 70), ("data_manipulation_marl.yaml", 40, 45), ("uc7_config.yaml", 30, 35)]
        for name, mel, nops in shipped:
            yield {"kind": "trajectory", "seed": base_seed * 1000003 + 991000 + len(name), "shipped": name, "max_episode_length": mel, "n_ops": nops, "monitors": ["c10"], "op_mix": {"step": 0.92, "reset": 0.03, "fault": 0.05}}
        m = 400 if tier == "quick" else 6000
        for i in range(m):
            yield {"kind": "load-probe", "seed": base_seed * 1000003 + 101000000 + i}

    def extra_evidence(self, results):
        graphs = {str(r.get("graph")) for r in results if r.get("kind") == "load-probe"}
        cyc = sum(1 for r in results if r.get("kind") == "load-probe" and r.get("cyclic"))
        return {"distinct_sharing_digraphs_probed": len(graphs), "of_which_cyclic_probes": cyc}


if __name__ == "__main__":
    sys.exit(main(Spec()))
