"""C07 - ACL verdict = first matching rule by position, else the implicit action (reference filter; E2 + passive)."""
from __future__ import annotations

import sys
from typing import Dict, Iterable

from dst.run import CheckSpec, main


class Spec(CheckSpec):
    prop = "C07"
    fn = "dst.props.c07:run"
    preload = ("dst.driver_net", "dst.props.c07", "dst.scenario", "dst.monitors", "dst.monitors.c07")
    timeout = 120
    rule = (
        "one evaluation = one bench run on a generated routed / firewall / wireless topology whose routers and all six "
        "firewall lists are loaded with 0-8 scenario-declared rules: 80-200 seeded ops adding/removing rules through "
        "the Python API, the acl requests and the router-/firewall-acl actions (positions incl. 0, 23 and out of "
        "range; wildcard masks incl. non-contiguous ones; every combination of specified/unspecified fields), crafted "
        "TCP/UDP/ICMP frames put to is_permitted, and pings through the devices. The harness keeps its own rule table "
        "per list (compared with the built one after every op) and the passive monitor re-decides every is_permitted "
        "call with the reference filter. non-trivial = a rule (not the implicit action) decided a frame AND a rule was "
        "added through a request AND one was removed; distinct = distinct (shape, op-kind trace) pairs. Honest note: "
        "the verdict is a function of (rule list, packet); this check samples that domain, it does not enumerate it."
    )
    assumptions = ["port 0 (PORT_LOOKUP NONE) is not used in generated rules"]
    required_probes = ["c07_rule_decided", "c07_implicit_decided", "c07_frame_denied_by_rule", "c07_rule_added_request", "c07_rule_added_api", "c07_rule_removed", "c07_crafted_frame"]

    def budget(self, tier: str) -> float:
        return 80.0 if tier == "quick" else 1200.0

    def nontrivial(self, res: Dict) -> bool:
        p = res.get("probes", {})
        return p.get("c07_rule_decided", 0) > 0 and p.get("c07_rule_added_request", 0) > 0 and p.get("c07_rule_removed", 0) > 0

    def jobs(self, tier: str, base_seed: int) -> Iterable[Dict]:
        n = 1200 if tier == "quick" else 30000
        for i in range(n):
            yield {"seed": base_seed * 1000003 + 70000000 + i, "n_ops": 80 if i % 4 else 200}


if __name__ == "__main__":
    sys.exit(main(Spec()))
