"""C01 - stepping/resetting the environment is total and keeps the episode contract (E1 driver)."""
from __future__ import annotations

import sys
from typing import Dict, Iterable

from dst.run import CheckSpec, main
from dst.scenario import SHIPPED_FILES


class Spec(CheckSpec):
    prop = "C01"
    timeout = 180
    rule = (
        "one evaluation = one simulated run in its own process: seeded scenario (generated family or shipped file) + "
        "seeded op sequence of blue actions drawn uniformly from the whole action map (mask ignored), resets at "
        "arbitrary points and fault requests between steps; a run is non-trivial when at least one fault fired and at "
        "least one step was taken; distinct = distinct (scenario-shape digest, op-kind trace digest) pairs"
    )
    assumptions = [
        "generated scenarios are well-formed (registered types, schema-valid options); from_config rejecting one is a harness error",
        "the harness' own step counter is the reference for truncation and tick accounting",
    ]
    required_probes = ["masked_action_executed", "reset_mid_episode", "reset_at_step_0", "truncated_true", "agent_action_refused"]

    def budget(self, tier: str) -> float:
        return 100.0 if tier == "quick" else 1500.0

    def jobs(self, tier: str, base_seed: int) -> Iterable[Dict]:
        n = 600 if tier == "quick" else 12000
        mons = ["c01", "c18"]
        # shipped scenarios first (fixed fraction of every profile that uses E1)
        shipped = [("data_manipulation.yaml", 40, 60), ("data_manipulation_marl.yaml", 40, 60), ("uc7_config.yaml", 25, 40), ("uc7_config_tap003.yaml", 25, 40)]
        reps = 1 if tier == "quick" else 6
        # the shipped UC2 scenario several times: its red agent attacks at step 25 +- 5, blue plays uniformly before
        for k in range(10 if tier == "quick" else 80):
            yield {"seed": base_seed * 1000003 + 905000 + k, "shipped": "data_manipulation.yaml", "max_episode_length": 60, "n_ops": 64, "monitors": mons, "op_mix": {"step": 0.93, "reset": 0.03, "fault": 0.04}}
        for k in range(4 if tier == "quick" else 40):
            s = base_seed * 1000003 + 906000 + k
            yield {"seed": s, "shipped": "uc7_config.yaml" if k % 2 else "uc7_config_tap003.yaml", "tap_variation": s, "max_episode_length": 60, "n_ops": 60, "monitors": mons, "op_mix": {"step": 0.93, "reset": 0.02, "fault": 0.05}}
        # a quiet defender that switches the beacon's host off once the threat actor's C2 channel is up
        for k in range(6 if tier == "quick" else 60):
            s = base_seed * 1000003 + 907000 + k
            yield {"seed": s, "shipped": "uc7_config.yaml", "tap_variation": s, "tap_fast": True, "max_episode_length": 100, "n_ops": 100, "monitors": mons, "ambush": 0.95, "ambush_mode": "c2cut", "op_mix": {"step": 0.97, "reset": 0.0, "fault": 0.03}}
        for rep in range(reps):
            for name, mel, nops in shipped:
                yield {"seed": base_seed * 1000003 + 900000 + rep * 10 + len(name), "shipped": name, "max_episode_length": mel, "n_ops": nops, "monitors": mons, "op_mix": {"step": 0.9, "reset": 0.04, "fault": 0.06}}
        for i in range(n):
            seed = base_seed * 1000003 + i
            yield {"seed": seed, "profile": {}, "n_ops": 45 if i % 5 else 90, "monitors": mons}


if __name__ == "__main__":
    sys.exit(main(Spec()))
