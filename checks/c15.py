"""C15 - file-system structural consistency (E2 bench, reference partition + conformance oracles)."""
from __future__ import annotations

import sys
from typing import Dict, Iterable

from dst.run import CheckSpec, main


class Spec(CheckSpec):
    prop = "C15"
    fn = "dst.props.c15:run"
    preload = ("dst.driver_net", "dst.props.c15", "dst.scenario", "dst.monitors")
    timeout = 120
    rule = (
        "one evaluation = one bench run (1-3 hosts built by the real from_config): 60-150 seeded file-system ops - "
        "create/delete/restore/scan/repair/corrupt/access on files and folders through raw requests and through the "
        "file/folder agent actions (translated by the real action classes), names drawn from a pool of 4 folders x 4 "
        "files so that they repeat and conflict, targets existing/deleted/never created, interleaved with ticks and "
        "node power events; after every op the live/deleted partition, name uniqueness, flags, describe_state and "
        "counters are checked. non-trivial = a file was deleted AND restored AND an existing item was re-created in the "
        "run; distinct = distinct op-kind traces"
    )
    assumptions = ["per-tick counters are compared with the harness' own count only on hosts without a database service"]
    required_probes = ["file_deleted", "file_restored", "create_existing_file", "create_existing_folder", "folder_deleted", "folder_restored"]

    def budget(self, tier: str) -> float:
        return 80.0 if tier == "quick" else 1200.0

    def nontrivial(self, res: Dict) -> bool:
        p = res.get("probes", {})
        return p.get("file_deleted", 0) > 0 and p.get("file_restored", 0) > 0 and p.get("create_existing_file", 0) > 0

    def jobs(self, tier: str, base_seed: int) -> Iterable[Dict]:
        n = 3000 if tier == "quick" else 60000
        for i in range(n):
            yield {"seed": base_seed * 1000003 + 150000000 + i, "n_ops": 60 if i % 4 else 150}


if __name__ == "__main__":
    sys.exit(main(Spec()))
