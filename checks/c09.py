"""C09 - observations faithfully encode the simulation's ground truth (E1 driver + reference encoder)."""
from __future__ import annotations

import sys
from typing import Dict, Iterable

from dst.run import CheckSpec, main


class Spec(CheckSpec):
    prop = "C09"
    timeout = 180
    rule = (
        "one evaluation = one simulated run (generated scenario with a generated observation space, or a shipped "
        "scenario): after every construction/reset/step the RL agent's nested observation is compared leaf by leaf with "
        "a reference encoder fed from simulator objects (not describe_state); histories are random actions, resets, "
        "power / service / application / file faults and in-tick request bursts so that compromised / fixing / stopped "
        "/ deleted / off combinations are visited. non-trivial = >= 10 observations compared and a fault fired; "
        "distinct = distinct (scenario-shape, op-kind trace) pairs"
    )
    assumptions = ["the reference encoder follows the documented encodings (enum values, threshold bins, 0 = absent/off, 1 = any/unlisted in ACL ids)"]
    required_probes = []

    def budget(self, tier: str) -> float:
        return 100.0 if tier == "quick" else 1500.0

    def nontrivial(self, res: Dict) -> bool:
        return bool(res.get("faults")) and res.get("monitor_stats", {}).get("c09", {}).get("observations_compared", 0) >= 10

    def jobs(self, tier: str, base_seed: int) -> Iterable[Dict]:
        n = 600 if tier == "quick" else 12000
        shipped = [("data_manipulation.yaml", 40, 60), ("data_manipulation_marl.yaml", 40, 50), ("uc7_config.yaml", 25, 35), ("uc7_config_tap003.yaml", 25, 35)]
        for rep in range(1 if tier == "quick" else 5):
            for name, mel, nops in shipped:
                yield {"seed": base_seed * 1000003 + 990000 + rep * 10 + len(name), "shipped": name, "max_episode_length": mel, "n_ops": nops, "monitors": ["c09"], "faults_inside_steps": True, "profile": {"push": 0.1}, "op_mix": {"step": 0.85, "reset": 0.05, "fault": 0.10}}
        for i in range(n):
            seed = base_seed * 1000003 + 90000000 + i
            prof = {"obs": True, "push": 0.12, "tight_links": 0.15, "nmne": 0.7, "durations": [0, 1, 2, 3]}
            # (the statement is about the end of a step under the agents' actions: faults are applied inside steps, where the
            # actions of further agents are applied, not between two steps)
            yield {"seed": seed, "profile": prof, "n_ops": 50, "monitors": ["c09"], "faults_inside_steps": True, "op_mix": {"step": 0.75, "reset": 0.05, "fault": 0.20}}

    def extra_evidence(self, results):
        seen: Dict[str, set] = {}
        for r in results:
            for k, v in (r.get("monitor_stats", {}).get("c09", {}).get("leaf_values_seen") or {}).items():
                seen.setdefault(k, set()).update(v)
        return {"leaf_values_seen": {k: sorted(v, key=str) for k, v in sorted(seen.items())}}


if __name__ == "__main__":
    sys.exit(main(Spec()))
