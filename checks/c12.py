"""C12 - power states gate everything a node does, with the configured timing (E2 bench + reference power machine)."""
from __future__ import annotations

import sys
from typing import Dict, Iterable

from dst.run import CheckSpec, main


class Spec(CheckSpec):
    prop = "C12"
    fn = "dst.props.c12:run"
    preload = ("dst.driver_net", "dst.props.c12", "dst.scenario", "dst.monitors")
    timeout = 120
    rule = (
        "one evaluation = one bench run on a generated topology (computers, servers, printers, switches, routers, "
        "firewall; start-up/shut-down durations drawn from {0,1,2,3} per node): 80-200 seeded ops - shutdown/startup/"
        "reset requests in every state, ticks, other requests aimed preferentially at nodes that are not ON, and pings "
        "between host pairs so that frames arrive in every state; every node is compared with a reference power "
        "machine after every op and wrappers watch every interface send/receive and every hand-up to software. "
        "non-trivial = a timed transition completed AND a ping involved a non-ON node AND a request hit a non-ON node; "
        "distinct = distinct (scenario-shape, op-kind trace) pairs"
    )
    assumptions = ["a timed transition may take d or d+1 ticks (the statement does not fix the boundary convention) but the same offset throughout a run"]
    required_probes = ["c12_timed_transition_completed", "c12_ping_involving_non_on_node", "c12_request_to_non_on_node", "c12_back_on", "c12_two_ticks_transitional", "c12_ping_ok_between_on_nodes"]

    def budget(self, tier: str) -> float:
        return 80.0 if tier == "quick" else 1200.0

    def nontrivial(self, res: Dict) -> bool:
        p = res.get("probes", {})
        return p.get("c12_timed_transition_completed", 0) > 0 and p.get("c12_ping_involving_non_on_node", 0) > 0 and p.get("c12_request_to_non_on_node", 0) > 0

    def jobs(self, tier: str, base_seed: int) -> Iterable[Dict]:
        n = 1500 if tier == "quick" else 40000
        for i in range(n):
            yield {"seed": base_seed * 1000003 + 120000000 + i, "n_ops": 80 if i % 4 else 200}


if __name__ == "__main__":
    sys.exit(main(Spec()))
