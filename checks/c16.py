"""C16 - logins need valid credentials; remote commands need a live session (E2 bench + reference session model)."""
from __future__ import annotations

import sys
from typing import Dict, Iterable

from dst.run import CheckSpec, main


class Spec(CheckSpec):
    prop = "C16"
    fn = "dst.props.c16:run"
    preload = ("dst.driver_net", "dst.props.c16", "dst.scenario", "dst.monitors")
    timeout = 120
    rule = (
        "one evaluation = one bench run on 2-4 connected hosts with declared user accounts, session time-outs lowered "
        "to 2-6 ticks and max_remote_sessions to 1-3 (recorded set_knobs ops): 90-220 seeded ops - add-user, "
        "disable-user, change-password, local commands and remote logins with right and wrong credentials, remote "
        "commands (each creating a uniquely named probe folder on the target), logoff, ticks up to and past the "
        "time-out, and power / terminal-service / interface faults on either end, also between login and command. "
        "non-trivial = a remote command executed AND one had no effect AND a session ended (time-out, logoff or "
        "password change); distinct = distinct (shape, op-kind trace) pairs"
    )
    assumptions = ["whether a power cycle or a terminal restart of either end ends a session is not asserted either way", "time-outs are asserted with one tick of tolerance"]
    required_probes = ["c16_remote_login_ok", "c16_remote_login_refused", "c16_remote_command_executed", "c16_remote_command_no_effect", "c16_session_timed_out", "c16_password_changed", "c16_local_command_executed", "c16_remote_logoff"]

    def budget(self, tier: str) -> float:
        return 80.0 if tier == "quick" else 1200.0

    def nontrivial(self, res: Dict) -> bool:
        p = res.get("probes", {})
        return p.get("c16_remote_command_executed", 0) > 0 and p.get("c16_remote_command_no_effect", 0) > 0 and (p.get("c16_session_timed_out", 0) + p.get("c16_remote_logoff", 0) + p.get("c16_password_changed", 0)) > 0

    def jobs(self, tier: str, base_seed: int) -> Iterable[Dict]:
        n = 1500 if tier == "quick" else 40000
        for i in range(n):
            yield {"seed": base_seed * 1000003 + 160000000 + i, "n_ops": 90 if i % 4 else 220}


if __name__ == "__main__":
    sys.exit(main(Spec()))
