"""C17 - database: password-gated connections, connection-gated queries, restorable data (E2 bench + reference model)."""
from __future__ import annotations

import sys
from typing import Dict, Iterable

from dst.run import CheckSpec, main


class Spec(CheckSpec):
    prop = "C17"
    fn = "dst.props.c17:run"
    preload = ("dst.driver_net", "dst.props.c17", "dst.scenario", "dst.monitors")
    timeout = 120
    rule = (
        "one evaluation = one bench run with a database server, a backup (FTP) host and 2-5 clients, capacity lowered "
        "to 1-3 in most runs: 90-220 seeded ops - connects with right/wrong/no password, SELECT/INSERT/DELETE/ENCRYPT/"
        "unknown queries on issued, closed and made-up connection ids, disconnects, client uninstall, service lifecycle "
        "requests, backup, restore, power events on server/client/backup host, interface disable/enable and ticks. "
        "non-trivial = a connection was opened AND one refused AND a query on a forged or closed id was tried AND a "
        "query changed the file's health; distinct = distinct (shape, op-kind trace) pairs"
    )
    assumptions = ["path blocks are modelled by power and interface state only (no routing model here; C06/C08 cover ACLs)", "the automatic backup at tick 1 is treated as unknown; only explicit successful backups feed the restore clause"]
    required_probes = ["c17_connect_ok", "c17_connect_refused", "c17_forged_query", "c17_query_changed_health", "c17_restore_ok", "c17_backup_ok", "c17_query_refused"]

    def budget(self, tier: str) -> float:
        return 80.0 if tier == "quick" else 1200.0

    def nontrivial(self, res: Dict) -> bool:
        p = res.get("probes", {})
        return p.get("c17_connect_ok", 0) > 0 and p.get("c17_connect_refused", 0) > 0 and p.get("c17_forged_query", 0) > 0 and p.get("c17_query_changed_health", 0) > 0

    def jobs(self, tier: str, base_seed: int) -> Iterable[Dict]:
        n = 1500 if tier == "quick" else 40000
        for i in range(n):
            yield {"seed": base_seed * 1000003 + 170000000 + i, "n_ops": 90 if i % 4 else 220}


if __name__ == "__main__":
    sys.exit(main(Spec()))
