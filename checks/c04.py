"""C04 - episodes and environment instances are isolated from one another (E3 differential driver).

(a) reset = restart with only the scenario surviving: an environment that lived through a dirtying history (random
    actions, faults, resets) is reset with seed s and driven by ops P; a fresh environment is reset with seed s and
    driven by the same P; the canonical logs of the P part must be identical, and no simulation component / agent object
    reachable from the new game may be reachable from the previous one (identity walk at every reset).
(b) instances: ops on instance A alone vs the same ops with a second instance B constructed, reset, stepped and closed
    in between (B's scenario equal to A's or differing in class-level knobs: NMNE capture, io_settings, thresholds);
    A's log must be unchanged. The process-global RNG states are saved/restored around B's operations (the check is
    about state leakage; see DESIGN.md for the RNG coupling probe)."""
from __future__ import annotations

import copy
import sys
from typing import Dict, Iterable, List, Optional

from dst import seams
from dst.diff import DiffSpec, main
from dst.scenario import IO_OFF, IO_ON


class Spec(DiffSpec):
    prop = "C04"
    timeout = 400
    rule = (
        "one evaluation = one case. kind a: reference = dirty history H (25-50 seeded ops incl. faults, bursts and "
        "resets) + reset(seed=s) + P (20-30 ops) on one environment, with an object-identity walk at every reset; "
        "variant = fresh environment + reset(seed=s) + P; logs of the P part compared. kind b: reference = ops on "
        "instance A alone; variants = same ops with a second instance B (same scenario / NMNE capture toggled / io all "
        "on) constructed, reset, stepped and closed at seeded points in between. non-trivial = at least one fault "
        "fired in the history and >= 5 steps compared; distinct = distinct (scenario-shape, op-kind trace) pairs"
    )
    assumptions = [
        "reset-vs-reset comparison (the property's own observe_at): a never-reset environment is not compared with a reset one",
        "global RNG states are saved/restored around operations of the second instance",
    ]
    required_probes: List[str] = []

    def variants(self) -> List[Dict]:
        base = {"entropy_salt": "", "clock_kind": "plain", "id_width": "fixed5"}
        return [
            {"name": "reference", "hashseed": 0, "args": dict(base)},
            {"name": "fresh environment, same seed and ops", "hashseed": 0, "args": dict(base), "kind": "a"},
            {"name": "fresh environment built from the dict a fresh scheduler yields for that episode", "hashseed": 0, "args": dict(base), "kind": "s"},
            {"name": "second instance B with the same scenario interleaved", "hashseed": 0, "args": dict(base), "kind": "b", "b": "same"},
            {"name": "second instance B with NMNE capture toggled interleaved", "hashseed": 0, "args": dict(base), "kind": "b", "b": "nmne"},
            {"name": "second instance B (NMNE capture toggled) constructed, stepped and closed before A is constructed", "hashseed": 0, "args": dict(base), "kind": "b", "b": "before"},
            {"name": "second instance B with all logging/io on interleaved", "hashseed": 0, "args": dict(base), "kind": "b", "b": "io"},
        ]

    def reference_args(self, case: Dict, variant: Dict) -> Dict:
        a = super().reference_args(case, variant)
        a.pop("kind", None)
        return a

    def variant_args(self, case: Dict, ref_result: Dict, variant: Dict) -> Optional[Dict]:
        if variant.get("kind") != case.get("kind"):
            return None
        if case["kind"] in ("a", "s") and not any(o[0] == "mark" for o in ref_result["ops"]):
            return None  # the reference run ended before the compared part began (it hit a violation of its own)
        a = super().variant_args(case, ref_result, variant)
        a.pop("kind", None)
        a.pop("mark_at", None)
        a["identity_walk"] = False
        ops = ref_result["ops"]
        if case["kind"] == "a":
            k = next(i for i, o in enumerate(ops) if o[0] == "mark")
            a["ops"] = ops[k:]
        elif case["kind"] == "s":
            k = next(i for i, o in enumerate(ops) if o[0] == "mark")
            a["ops"] = ops[k:]
            a.pop("scenario", None)
            a["schedule_dir"] = case["schedule_dir"]
            a["schedule_episode"] = ref_result["episode_at_mark"]
        elif variant["b"] == "before":
            sb = copy.deepcopy(ref_result["scenario"])
            net = sb["simulation"]["network"]
            cur = (net.get("nmne_config") or {}).get("capture_nmne", False)
            net["nmne_config"] = {"capture_nmne": not cur, "nmne_capture_keywords": ["DELETE", "ENCRYPT"]}
            a["pre_b"] = {"scenario": sb, "ops": [["b_reset", 5], ["b_step", 1], ["b_step", 2], ["b_step", 3]]}
            a["ops"] = ops
        else:
            a["ops"] = self.interleave_b(ops, ref_result["scenario"], variant["b"], case["seed"])
        return a

    def interleave_b(self, ops: List, scenario: Dict, mode: str, seed: int) -> List:
        r = seams.stream(seed, "instanceB" + mode)
        sb = copy.deepcopy(scenario)
        if mode == "nmne":
            net = sb["simulation"]["network"]
            cur = (net.get("nmne_config") or {}).get("capture_nmne", False)
            net["nmne_config"] = {"capture_nmne": not cur, "nmne_capture_keywords": ["DELETE"]}
        elif mode == "io":
            sb["io_settings"] = dict(IO_ON)
        out: List = []
        alive = False
        for i, op in enumerate(ops):
            out.append(op)
            x = r.random()
            if not alive and x < 0.25:
                out.append(["b_new", sb])
                alive = True
                if r.random() < 0.7:
                    out.append(["b_reset", r.randint(0, 999)])
            elif alive:
                if x < 0.45:
                    out.append(["b_step", r.randint(0, 10**6)])
                elif x < 0.55:
                    out.append(["b_reset", r.choice([None, r.randint(0, 999)])])
                elif x < 0.62:
                    out.append(["b_close"])
                    alive = False
        return out

    def nontrivial(self, ref: Dict) -> bool:
        return ref.get("steps", 0) >= 5 and bool(ref.get("faults"))

    def cases(self, tier: str, base_seed: int) -> Iterable[Dict]:
        n = 90 if tier == "quick" else 2500
        shipped = [("data_manipulation.yaml", 30), ("uc7_config.yaml", 20)]
        for kind in ("a", "b"):
            for name, mel in shipped:
                s = base_seed * 1000003 + 940000 + len(name) + (7 if kind == "b" else 0)
                c = {"seed": s, "shipped": name, "max_episode_length": mel, "monitors": [], "kind": kind, "io": dict(IO_OFF), "first_reset_seed": s % 1000, "op_mix": {"step": 0.9, "reset": 0.04, "fault": 0.06}, "record_state": True}
                if kind == "a":
                    c.update({"n_ops": 45, "mark_at": 22, "mark_reset_seed": s % 977, "identity_walk": True, "profile": {"push": 0.1}})
                else:
                    c.update({"n_ops": 25})
                yield c
        # episode-scheduled scenarios shipped as directories: several quick episodes (past the end of the schedule now and
        # then: it loops), then the compared episode
        dirs = [("mini_scenario_with_simulation_variation", 6, 3), ("scenario_with_placeholders", 6, 3), ("uc7_multiple_attack_variants", 2, 3)]
        for rep in range(2 if tier == "quick" else 10):
            for d, per_ep, neps in dirs:
                s = base_seed * 1000003 + 941000 + rep * 100 + len(d)
                ne = neps + rep % 3
                yield {"seed": s, "schedule_dir": d, "monitors": [], "kind": "s", "first_reset_seed": s % 1000, "op_mix": {"step": 1.0 - 1.0 / per_ep, "reset": 1.0 / per_ep, "fault": 0.0}, "n_ops": ne * per_ep + 8, "mark_at": ne * per_ep, "mark_reset_seed": s % 977, "identity_walk": True, "record_state": True, "no_reset_after_mark": True}
        for i in range(n):
            s = base_seed * 1000003 + 40000000 + i
            kind = "a" if i % 2 == 0 else "b"
            prof = {"n_green": (0, 2), "n_red": (0, 2), "tight_links": 0.15, "push": 0.15, "nmne": 0.6}
            c = {"seed": s, "profile": prof, "monitors": [], "kind": kind, "first_reset_seed": s % 1000, "op_mix": {"step": 0.8, "reset": 0.05, "fault": 0.15}, "record_state": True}
            if kind == "a":
                h = 25 + (i % 3) * 12
                # (0 is a legal seed like any other: every fourth compared episode is seeded with it)
                c.update({"n_ops": h + 25, "mark_at": h, "mark_reset_seed": 0 if i % 8 == 0 else s % 977, "identity_walk": True})
            else:
                c.update({"n_ops": 30})
            yield c


if __name__ == "__main__":
    sys.exit(main(Spec()))
