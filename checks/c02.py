"""C02 - every observation is a member of the declared observation space (E1 driver, observation-heavy profiles and
count-pushing workloads)."""
from __future__ import annotations

import sys
from typing import Dict, Iterable

from dst.run import CheckSpec, main


class Spec(CheckSpec):
    prop = "C02"
    timeout = 180
    rule = (
        "one evaluation = one simulated run in its own process: seeded scenario with a generated observation space "
        "(hosts/routers/firewalls/links, slot counts below/at/above the real counts, NMNE/traffic/num_access/users on "
        "or off, flattened or nested) + seeded ops (blue actions, resets, faults, and bursts of requests inside one "
        "tick that push counters past their top threshold); after every reset/step the nested observation is checked "
        "leaf by leaf against the nested space and the returned one against env.observation_space; spaces are "
        "compared with the first episode's. non-trivial = at least one fault or burst fired and >= 5 observations "
        "checked; distinct = distinct (scenario-shape, op-kind trace) pairs"
    )
    assumptions = ["generated observation configurations are schema-valid; num_rules never exceeds the ACL size"]
    required_probes = []

    def budget(self, tier: str) -> float:
        return 100.0 if tier == "quick" else 1500.0

    def nontrivial(self, res: Dict) -> bool:
        return bool(res.get("faults")) and (res.get("monitor_stats", {}).get("c02", {}).get("obs_checked", 0) >= 5)

    def jobs(self, tier: str, base_seed: int) -> Iterable[Dict]:
        n = 600 if tier == "quick" else 12000
        mons = ["c02"]
        shipped = [("data_manipulation.yaml", 40, 60), ("data_manipulation_marl.yaml", 40, 60), ("uc7_config.yaml", 25, 35), ("uc7_config_tap003.yaml", 25, 35)]
        for rep in range(1 if tier == "quick" else 5):
            for name, mel, nops in shipped:
                yield {"seed": base_seed * 1000003 + 910000 + rep * 10 + len(name), "shipped": name, "max_episode_length": mel, "n_ops": nops, "monitors": mons, "profile": {"push": 0.1}, "op_mix": {"step": 0.85, "reset": 0.05, "fault": 0.10}}
        for i in range(n):
            seed = base_seed * 1000003 + 20000000 + i
            prof = {"obs": True, "push": 0.15, "tight_links": 0.1, "nmne": 0.7, "flatten": 0.5}
            yield {"seed": seed, "profile": prof, "n_ops": 50, "monitors": mons, "op_mix": {"step": 0.78, "reset": 0.05, "fault": 0.17}}

    def extra_evidence(self, results):
        mx: Dict[str, int] = {}
        for r in results:
            for k, v in (r.get("monitor_stats", {}).get("c02", {}).get("max_leaf_value_seen") or {}).items():
                if v > mx.get(k, -1):
                    mx[k] = v
        return {"max_observation_leaf_values_reached": mx}


if __name__ == "__main__":
    sys.exit(main(Spec()))
