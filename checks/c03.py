"""C03 - same scenario, seed and actions give the same trajectory, in any process (E3 differential driver).

Every case is executed in several interpreters that differ in PYTHONHASHSEED, entropy stream (other UUIDs / MACs / ICMP
identifiers, also of different printed length), wall-clock script (epoch, jumps, stalls, zero-microsecond instants,
backward steps) and logging/output settings; plus an in-process variant that replays the same seeded episode a second
time after reset(seed=s). Canonical event logs (observation, reward, truncation and per agent action / parameters /
request / response status / response data, identifiers replaced by order of first appearance) must be identical."""
from __future__ import annotations

import sys
from typing import Dict, Iterable, List

from dst.diff import DiffSpec, main
from dst.scenario import IO_OFF, IO_ON


class Spec(DiffSpec):
    prop = "C03"
    timeout = 400
    rule = (
        "one evaluation = one case: a seeded scenario (generated with stochastic green/red agents, nmap actions over "
        "subnets and tight links, or a shipped scenario) and a concrete op list whose first op is reset(seed=s); the "
        "reference run generates the ops, 3-4 further executions replay them in other interpreters (other "
        "PYTHONHASHSEED, entropy stream, clock script, logging on, real torch) or in the same interpreter a second "
        "time after reset(seed=s); canonical logs are compared entry by entry. non-trivial = the case took >= 5 steps "
        "and at least one scripted agent acted; distinct = distinct (scenario-shape, op-kind trace) pairs"
    )
    assumptions = [
        "identifier canonicalisation: UUID-, MAC- and timestamp-shaped tokens are opaque; everything else, including parameter order, counts",
        "the in-process re-seed variant replays the same ops after reset(seed=s); ops with reset(seed=None) inside are kept (they do not re-seed)",
    ]
    required_probes: List[str] = []

    def variants(self) -> List[Dict]:
        # every variant but W keeps the *printed width* of ICMP identifiers (5 digits) and timestamps (6-digit fraction)
        # constant, so that W isolates the recorded finding C03-frame-size-depends-on-printed-widths
        return [
            {"name": "ref(hash0,plain clock,logging off)", "hashseed": 0, "args": {"entropy_salt": "", "clock_kind": "plain", "id_width": "fixed5"}},
            {"name": "hash1,entropy b,jumpy clock,logging+io on", "hashseed": 1, "args": {"entropy_salt": "b", "clock_kind": "jumpy", "id_width": "fixed5", "logging_on": True, "io_override": IO_ON}},
            {"name": "hash2,entropy c,backward clock", "hashseed": 2, "args": {"entropy_salt": "c", "clock_kind": "backward", "id_width": "fixed5"}},
            {"name": "hash7,entropy d,skewed clock", "hashseed": 7, "args": {"entropy_salt": "d", "clock_kind": "skewed", "id_width": "fixed5"}},
            {"name": "in-process re-seed (same ops again after reset(seed=s))", "hashseed": 0, "args": {"entropy_salt": "", "clock_kind": "stalled", "id_width": "fixed5"}, "reseed": True},
            {"name": "W: short identifiers + zero-microsecond instants only", "hashseed": 0, "args": {"entropy_salt": "", "clock_kind": "zero_us", "id_width": "short"}},
        ]

    def variant_args(self, case: Dict, ref_result: Dict, variant: Dict):
        if case.get("schedule_dir") and variant.get("reseed"):
            return None  # a second pass continues with later schedule entries: not the same episodes
        return super().variant_args(case, ref_result, variant)

    def variant_ops(self, ops: List, variant: Dict) -> List:
        if variant.get("reseed"):
            return list(ops) + [["mark"]] + list(ops)
        return ops

    def nontrivial(self, ref: Dict) -> bool:
        return ref.get("steps", 0) >= 5

    def cases(self, tier: str, base_seed: int) -> Iterable[Dict]:
        n = 110 if tier == "quick" else 2500
        shipped = [("data_manipulation.yaml", 45, 46), ("data_manipulation_marl.yaml", 30, 31), ("uc7_config.yaml", 40, 41), ("uc7_config_tap003.yaml", 40, 41)]
        reps = 1 if tier == "quick" else 4
        for rep in range(reps):
            for name, mel, nops in shipped:
                s = base_seed * 1000003 + 930000 + rep * 10 + len(name)
                yield {"seed": s, "shipped": name, "max_episode_length": mel, "n_ops": nops, "monitors": [], "op_mix": {"step": 0.97, "reset": 0.0, "fault": 0.03}, "first_reset_seed": s % 100000, "io": dict(IO_OFF)}
        # shipped UC7 topologies with generated kill-chain options for the threat-actor agents
        for k in range(6 if tier == "quick" else 60):
            s = base_seed * 1000003 + 931000 + k
            name = "uc7_config.yaml" if k % 3 else "uc7_config_tap003.yaml"
            yield {"seed": s, "shipped": name, "tap_variation": s, "max_episode_length": 70, "n_ops": 66, "monitors": [], "op_mix": {"step": 0.98, "reset": 0.0, "fault": 0.02}, "first_reset_seed": s % 100000, "io": dict(IO_OFF)}
        # episode-scheduled directories: which episode a reset builds must not depend on output settings
        for k, d in enumerate(["scenario_with_placeholders", "mini_scenario_with_simulation_variation"] * (1 if tier == "quick" else 5)):
            s = base_seed * 1000003 + 932000 + k
            yield {"seed": s, "schedule_dir": d, "n_ops": 40, "monitors": [], "op_mix": {"step": 0.8, "reset": 0.17, "fault": 0.03}, "io_override": dict(IO_OFF)}
        for i in range(n):
            s = base_seed * 1000003 + 30000000 + i
            prof = {"n_green": (1, 3), "n_red": (1, 2), "tight_links": 0.3, "io_on": 0.0, "action_map_size": (20, 60)}
            yield {"seed": s, "profile": prof, "n_ops": 30, "monitors": [], "op_mix": {"step": 0.9, "reset": 0.03, "fault": 0.07}, "first_reset_seed": s % 100000}


if __name__ == "__main__":
    sys.exit(main(Spec()))
