"""C05 - requests resolve to a documented status; refused requests change nothing (E2 bench + request tracing)."""
from __future__ import annotations

import sys
from typing import Dict, Iterable

from dst.run import CheckSpec, main


class Spec(CheckSpec):
    prop = "C05"
    fn = "dst.props.c05:run"
    preload = ("dst.driver_net", "dst.props.c05", "dst.scenario", "dst.monitors", "dst.monitors.reqtrace")
    timeout = 180
    rule = (
        "one evaluation = one bench run on a generated topology (all families): 120-260 seeded ops - history faults "
        "(power, service stop/disable/pause/restart, application uninstall), ticks, live-tree routes with well-formed "
        "parameters, routes with an absent or missing element at a random depth, and the requests of every action "
        "type x component (30% with one component name replaced by an absent one); every judged request is traced "
        "through RequestManager.__call__ and the whole simulation state is digested before and after. non-trivial = a "
        "request ended by a missing key AND one by a validator AND one reached a handler; distinct = distinct (shape, "
        "op-kind trace) pairs"
    )
    assumptions = ["leaf parameter arity/type mutations are not generated (there is no schema for leaf parameters); parameters that name components are"]
    required_probes = ["c05_key_miss", "c05_validator_refusal", "c05_reached_handler", "c05_action_on_existing_components"]

    def budget(self, tier: str) -> float:
        return 90.0 if tier == "quick" else 1200.0

    def nontrivial(self, res: Dict) -> bool:
        p = res.get("probes", {})
        return p.get("c05_key_miss", 0) > 0 and p.get("c05_validator_refusal", 0) > 0 and p.get("c05_reached_handler", 0) > 0

    def jobs(self, tier: str, base_seed: int) -> Iterable[Dict]:
        n = 700 if tier == "quick" else 20000
        for i in range(n):
            yield {"seed": base_seed * 1000003 + 50000000 + i, "n_ops": 120 if i % 4 else 260}


if __name__ == "__main__":
    sys.exit(main(Spec()))
