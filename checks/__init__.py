"""One thin entry per property: profile (families, op mix, monitors, budgets)."""
