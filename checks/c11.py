"""C11 - the action mask agrees with what the simulator would refuse (E1 driver, mask-enabled scenarios)."""
from __future__ import annotations

import sys
from typing import Dict, Iterable

from dst.run import CheckSpec, main


class Spec(CheckSpec):
    prop = "C11"
    timeout = 180
    rule = (
        "one evaluation = one simulated run of a generated scenario with action masking on; after every reset/step "
        "every entry of the action map is dry-run by an independent walker over the live request tree (keys and all "
        "validators on the path) and compared with env.action_masks(); the executed entry (uniform, masked-out ones "
        "included) is traced through RequestManager.__call__ and compared with its mask bit when the RL agent acts "
        "first in the tick. non-trivial = a masked-out action was executed AND the mask was checked while a node was "
        "SHUTTING_DOWN/BOOTING; distinct = distinct (scenario-shape, op-kind trace) pairs"
    )
    assumptions = ["executed-action oracle only when the RL agent is declared first (otherwise other agents act between mask and execution)"]
    required_probes = ["c11_masked_out_action_executed", "c11_allowed_action_executed", "c11_mask_checked_in_transitional_state", "c11_some_action_masked_out"]

    def budget(self, tier: str) -> float:
        return 100.0 if tier == "quick" else 1500.0

    def nontrivial(self, res: Dict) -> bool:
        p = res.get("probes", {})
        return p.get("c11_masked_out_action_executed", 0) > 0 and p.get("c11_mask_checked_in_transitional_state", 0) > 0

    def jobs(self, tier: str, base_seed: int) -> Iterable[Dict]:
        n = 500 if tier == "quick" else 10000
        for i in range(n):
            seed = base_seed * 1000003 + 110000000 + i
            prof = {"masking": 1.0, "obs": False, "n_green": (0, 1), "n_red": (0, 1), "durations": [1, 2, 3], "action_map_size": (30, 80), "blue_first": 0.7, "app_lifecycle_cluster": 0.7}
            yield {"seed": seed, "profile": prof, "n_ops": 45, "monitors": ["c11"], "op_mix": {"step": 0.75, "reset": 0.04, "fault": 0.21}, "extra_faults": ["FS_cycle", "FS_cycle"] if i % 2 else []}


if __name__ == "__main__":
    sys.exit(main(Spec()))
