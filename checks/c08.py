"""C08 - packets reach exactly their addressee via best routes, and forwarding ends (E2 bench, reference forwarding model)."""
from __future__ import annotations

import sys
from typing import Dict, Iterable

from dst.run import CheckSpec, main


class Spec(CheckSpec):
    prop = "C08"
    fn = "dst.props.c08:run"
    preload = ("dst.driver_net", "dst.props.c08", "dst.models.route", "dst.scenario", "dst.monitors")
    timeout = 180
    rule = (
        "one evaluation = one bench run on a generated topology (plain LAN; one router with 2-3 subnets; two routers in "
        "line with static, default, mixed or overlapping route tables, including default routes that point at each "
        "other; firewall with DMZ; two wireless routers joined over the air; /24 and /28 masks; now and then a host whose default gateway is another host): 70-140 "
        "seeded ops - pings (1-4 echo requests) and database connections between ordered host pairs, pings to addresses "
        "nobody owns, routes added through the public route-table API (prefix lengths 8-32 around a host, metrics 0/1/5, "
        "right and wrong next hops), an exhaustive sweep of all ordered triples of a 10-route family on a scratch table, "
        "power and interface/port toggles on every kind of node, ticks. Every find_best_route call, every unicast frame "
        "handed to a session manager and every node-level frame receipt is checked by wrappers; after each ping the "
        "visited layer-3 devices are compared with the reference walk. non-trivial = a ping across a router was "
        "expected to succeed AND a route choice among >=3 routes or a stray packet was checked; distinct = distinct "
        "(shape, op-kind trace) pairs"
    )
    assumptions = [
        "the reference walk models standard IP forwarding; where it finds no path, nothing is asserted about failure except delivery without any route",
        "ping success is required with pings=1..4 in whatever cache state the history has produced (cold after construction / power cycles, warm afterwards)",
        "air capacities are left unlimited in this check (a saturated frequency legitimately drops frames; that is C18's subject)",
    ]
    required_probes = ["c08_ping_across_router_expected", "c08_route_choice_among_3plus", "c08_default_route_used", "c08_stray_packet", "c08_forwarded_frame_ttl_checked", "c08_unicast_handed_to_software", "c08_route_tables_swept"]

    def budget(self, tier: str) -> float:
        return 100.0 if tier == "quick" else 1500.0

    def nontrivial(self, res: Dict) -> bool:
        p = res.get("probes", {})
        return p.get("c08_ping_across_router_expected", 0) > 0 and (p.get("c08_route_choice_among_3plus", 0) > 0 or p.get("c08_stray_packet", 0) > 0)

    def jobs(self, tier: str, base_seed: int) -> Iterable[Dict]:
        n = 800 if tier == "quick" else 20000
        for i in range(n):
            yield {"seed": base_seed * 1000003 + 80000000 + i, "n_ops": 70 if i % 4 else 140}


if __name__ == "__main__":
    sys.exit(main(Spec()))
