"""C06 - blocking is effective: a host cut off from another cannot affect it (twin-world bench + passive frame monitor)."""
from __future__ import annotations

import sys
from typing import Dict, Iterable

from dst.run import CheckSpec, main


class Spec(CheckSpec):
    prop = "C06"
    fn = "dst.props.c06:run"
    preload = ("dst.driver_net", "dst.driver_env", "dst.props.c06", "dst.scenario", "dst.monitors", "dst.monitors.c06")
    timeout = 180
    rule = (
        "one evaluation = one simulated run. Twin-world runs: two simulations built from one generated scenario (switched "
        "LAN, one or two routers, firewall with DMZ, two wireless routers joined over the air; attacker A and victim B placed at random, A carrying the red "
        "applications, database/FTP/terminal clients, nmap and optionally a C2 server or beacon aimed at B); 0-14 seeded "
        "ops of ordinary traffic in both worlds (warm caches, open connections, sessions, C2 channels), then one seeded "
        "blocking mechanism on the only physical path (deny rule of a seeded shape in the router list or in either of the "
        "two firewall lists the traffic crosses, emptied list with implicit deny, disabled NIC / router port / switch "
        "port, removed link, powered-off device or victim), then 40-80 seeded attacker ops in one world only; after every "
        "op B's canonicalised describe_state() must be equal in both worlds. Game-level runs: shipped and generated "
        "scenarios stepped with seeded blue actions, ACL edits and faults under the passive monitor (a frame a device "
        "denied is never sent by it nor handed to its session manager). non-trivial = an attack op ran after the block "
        "or a frame was denied by a device; distinct = distinct (shape, op-kind trace) pairs"
    )
    assumptions = [
        "generated topologies are trees, so the harness' single cut blocks every path (checked per run: exactly one physical path A->B)",
        "for protocol/port-specific deny rules only attacks that travel entirely on the denied protocol/port are run and A performs no local power/NIC operations",
        "identifiers (uuids, MACs, timestamps) are compared up to renaming",
    ]
    required_probes = ["c06_attack_after_block", "c06_frame_denied_by_device"]

    def budget(self, tier: str) -> float:
        return 120.0 if tier == "quick" else 1500.0

    def nontrivial(self, res: Dict) -> bool:
        p = res.get("probes", {})
        return p.get("c06_attack_after_block", 0) > 0 or p.get("c06_frame_denied_by_device", 0) > 0

    def jobs(self, tier: str, base_seed: int) -> Iterable[Dict]:
        n = 700 if tier == "quick" else 16000
        for i in range(n):
            # (identifier and timestamp widths are kept uniform: frame sizes - and so B's traffic counters - depend on printed
            # widths, which is C03's known finding and not this property's subject)
            yield {"seed": base_seed * 1000003 + 60000000 + i, "n_ops": 40 if i % 3 else 80, "id_width": "fixed5", "clock_kind": ["plain", "skewed", "jumpy", "backward"][i % 4]}
        # the same monitor under whole-game runs (agents' traffic, blue ACL actions)
        shipped = [("data_manipulation.yaml", 60), ("uc7_config.yaml", 40)]
        for rep in range(1 if tier == "quick" else 8):
            for name, mel in shipped:
                yield {"driver": "e1", "seed": base_seed * 1000003 + 61000000 + rep * 10 + len(name), "shipped": name, "max_episode_length": mel, "n_ops": mel, "monitors": ["c06"], "op_mix": {"step": 0.85, "reset": 0.02, "fault": 0.13}}
        for i in range(60 if tier == "quick" else 1500):
            seed = base_seed * 1000003 + 62000000 + i
            prof = {"topologies": ["routed", "routed2", "firewall", "wireless"], "obs": False, "random_acl_rules": (2, 10)}
            yield {"driver": "e1", "seed": seed, "profile": prof, "n_ops": 40, "monitors": ["c06"], "op_mix": {"step": 0.8, "reset": 0.03, "fault": 0.17}}


if __name__ == "__main__":
    sys.exit(main(Spec()))
