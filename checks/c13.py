"""C13 - services and applications follow their lifecycle; only running software works (E2 bench + reference machines)."""
from __future__ import annotations

import sys
from typing import Dict, Iterable

from dst.run import CheckSpec, main


class Spec(CheckSpec):
    prop = "C13"
    fn = "dst.props.c13:run"
    preload = ("dst.driver_net", "dst.props.c13", "dst.scenario", "dst.monitors")
    timeout = 120
    rule = (
        "one evaluation = one bench run on a generated LAN/routed topology carrying every shipped service and "
        "application type: 90-220 seeded ops - every lifecycle request in every state, fix/scan, ticks, node power "
        "events, application install/uninstall/re-install, pings and client executions that address software in every "
        "state; reference lifecycle machines, payload-to-non-running-software wrappers and a registry cross-check are "
        "evaluated after every op. non-trivial = a lifecycle request was refused AND one accepted AND a restart or "
        "install completed; distinct = distinct (shape, op-kind trace) pairs"
    )
    assumptions = ["restart/install may take d or d+1 ticks, consistently within a run", "a fix request on software whose health is neither GOOD nor COMPROMISED may be answered either way"]
    required_probes = ["c13_lifecycle_request_refused", "c13_lifecycle_request_accepted", "c13_restart_completed", "c13_install_completed", "c13_payload_to_non_running_software"]

    def budget(self, tier: str) -> float:
        return 80.0 if tier == "quick" else 1200.0

    def nontrivial(self, res: Dict) -> bool:
        p = res.get("probes", {})
        return p.get("c13_lifecycle_request_refused", 0) > 0 and p.get("c13_lifecycle_request_accepted", 0) > 0 and (p.get("c13_restart_completed", 0) + p.get("c13_install_completed", 0)) > 0

    def jobs(self, tier: str, base_seed: int) -> Iterable[Dict]:
        n = 1500 if tier == "quick" else 40000
        for i in range(n):
            yield {"seed": base_seed * 1000003 + 130000000 + i, "n_ops": 90 if i % 4 else 220}


if __name__ == "__main__":
    sys.exit(main(Spec()))
