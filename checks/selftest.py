"""Determinism self-test (DESIGN.md section 6): the same (VERIF_SEED, entropy, clock script, PYTHONHASHSEED) executed
(a) forked from a zygote, (b) forked again, (c) in a freshly exec'ed interpreter must give identical complete event
logs, entropy-draw and clock-read counts. Not a property check: a divergence is a harness error (exit 2)."""
from __future__ import annotations

import argparse
import json
import sys
import time

from dst.core import digest


def jobs(n: int, base: int):
    for i in range(n):
        s = base + i
        kind = i % 4
        if kind == 0:
            yield ("dst.driver_env:run_e1", {"seed": s, "profile": {"push": 0.1}, "n_ops": 25, "monitors": ["c01", "c02", "c18"], "record_log": True, "id_width": "mixed"})
        elif kind == 1:
            yield ("dst.driver_env:run_e1", {"seed": s, "profile": {"topologies": ["wireless", "firewall"], "tight_links": 0.6}, "n_ops": 25, "monitors": ["c18", "c07"], "record_log": True})
        elif kind == 2:
            yield ("dst.props.c12:run", {"seed": s, "n_ops": 60})
        else:
            yield ("dst.props.c07:run", {"seed": s, "n_ops": 60})


def sig_of(res: dict) -> str:
    keep = {k: res.get(k) for k in ("violation", "n_ops", "steps", "probes", "faults", "entropy_draws", "clock_reads", "op_kinds", "shape", "log_digest")}
    if keep["violation"]:
        keep["violation"] = {k: keep["violation"].get(k) for k in ("property", "sig", "msg")}
    return digest(keep)


def main() -> int:
    ap = argparse.ArgumentParser()
    ap.add_argument("--n", type=int, default=48)
    ap.add_argument("--execs", type=int, default=8, help="how many of the seeds are also run in a fresh interpreter")
    ap.add_argument("--seed", type=int, default=5000)
    a = ap.parse_args()
    from dst.pool import exec_job, run_jobs

    js = list(jobs(a.n, a.seed))
    pre = ("dst.driver_env", "dst.monitors", "dst.scenario", "dst.props.c12", "dst.props.c07")
    t0 = time.time()
    runs = []
    for workers in (16, 5):
        out = {}
        for r in run_jobs([{"id": i, "fn": fn, "args": args, "timeout": 180} for i, (fn, args) in enumerate(js)], hashseed=0, workers=workers, preload=pre):
            out[r["id"]] = sig_of(r["result"]) if r.get("status") == "ok" else f"ERR:{r.get('status')}:{(r.get('error') or '')[:200]}"
        runs.append(out)
    bad = [i for i in range(len(js)) if runs[0].get(i) != runs[1].get(i) or str(runs[0].get(i)).startswith("ERR")]
    for i in range(min(a.execs, len(js))):
        fn, args = js[i * (len(js) // max(1, a.execs)) % len(js)]
        idx = js.index((fn, args))
        r = exec_job({"id": idx, "fn": fn, "args": args, "timeout": 300}, hashseed=0)
        s = sig_of(r["result"]) if r.get("status") == "ok" else f"ERR:{r.get('status')}:{(r.get('error') or '')[:300]}"
        if s != runs[0].get(idx):
            bad.append(idx)
            print(f"fork vs exec differ for job {idx} ({fn} seed {args['seed']}): {runs[0].get(idx)} vs {s}")
    print(f"determinism self-test: {len(js)} jobs x 2 forked executions (16 and 5 workers) + {a.execs} exec'ed; {len(set(bad))} divergent; {time.time() - t0:.0f}s")
    for i in sorted(set(bad))[:10]:
        print("  divergent:", js[i][0], js[i][1]["seed"], runs[0].get(i), runs[1].get(i))
    return 2 if bad else 0


if __name__ == "__main__":
    sys.exit(main())
