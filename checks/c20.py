"""C20 - the simulation built from a scenario file is what the file says (load-time inventory + E3 re-serialisation).

Sentence 1 (honest fit: a function of the configuration alone - no schedule, clock or fault): step 0 of every run
compares an inventory derived independently from the scenario dict with the built object graph (monitor c20; also
after every reset, and for the shipped scenarios and schedule directories).
Sentence 2 is decided by the differential driver: the scenario is re-serialised to YAML with shuffled mapping-key
order, flow/block style and quoting changes, parsed again, and the seeded canonical trajectory must equal the
original's."""
from __future__ import annotations

import copy
import random
import sys
from typing import Any, Dict, Iterable, List, Optional

from dst.diff import DiffSpec, main
from dst.scenario import IO_OFF


def shuffle_keys(x: Any, rng: random.Random) -> Any:
    if isinstance(x, dict):
        items = list(x.items())
        rng.shuffle(items)
        return {k: shuffle_keys(v, rng) for k, v in items}
    if isinstance(x, list):
        return [shuffle_keys(v, rng) for v in x]
    return x


def reserialise(scenario: Dict, seed: int, flow: bool) -> Dict:
    """Scenario -> YAML text (shuffled mapping keys, other style) -> parsed dict."""
    import yaml

    rng = random.Random(seed)
    text = yaml.safe_dump(shuffle_keys(scenario, rng), default_flow_style=flow, sort_keys=False, width=10**6, default_style='"' if rng.random() < 0.3 and not flow else None)
    return yaml.safe_load(text)


class Spec(DiffSpec):
    prop = "C20"
    timeout = 400
    rule = (
        "one evaluation = one case: a generated scenario (all topology families, declared initial power states, "
        "software options, users, files, ACLs, routes, agents) or a shipped scenario; the reference run checks the "
        "load-time inventory (monitor c20, also after every reset) and generates a seeded op list; two further "
        "executions load the same scenario after a YAML round trip with shuffled mapping-key order (block style with "
        "occasional quoting / flow style) and replay the ops; canonical logs incl. per-node state digests must be "
        "equal. non-trivial = >= 5 steps compared; distinct = distinct (scenario-shape, op-kind trace) pairs"
    )
    assumptions = ["only items and options the scenario states are compared with the built objects", "list order is meaningful (agents, components), mapping key order is not"]
    required_probes = ["c20_inventory_compared", "c20_defaults_block_compared", "c20_schedule_episode_compared"]

    def variants(self) -> List[Dict]:
        base = {"entropy_salt": "", "clock_kind": "plain", "id_width": "fixed5"}
        return [
            {"name": "reference (scenario dict as generated / parsed)", "hashseed": 0, "args": dict(base)},
            {"name": "YAML round trip, shuffled key order, block style", "hashseed": 0, "args": dict(base), "yaml": "block"},
            {"name": "YAML round trip, shuffled key order, flow style", "hashseed": 0, "args": dict(base), "yaml": "flow"},
        ]

    def variant_args(self, case: Dict, ref_result: Dict, variant: Dict) -> Optional[Dict]:
        if case.get("schedule_dir"):
            return None  # directories are read from disk by the code itself: only the inventory oracle applies
        a = super().variant_args(case, ref_result, variant)
        from dst.core import intify_keys

        a["scenario"] = reserialise(intify_keys(copy.deepcopy(ref_result["scenario"])), case["seed"] + (1 if variant["yaml"] == "flow" else 0), variant["yaml"] == "flow")
        return a

    def cases(self, tier: str, base_seed: int) -> Iterable[Dict]:
        n = 160 if tier == "quick" else 4000
        shipped = [("data_manipulation.yaml", 30), ("data_manipulation_marl.yaml", 25), ("uc7_config.yaml", 20), ("uc7_config_tap003.yaml", 20)]
        for name, mel in shipped:
            s = base_seed * 1000003 + 920000 + len(name)
            yield {"seed": s, "shipped": name, "max_episode_length": mel, "n_ops": mel + 4, "monitors": ["c20"], "io": dict(IO_OFF), "first_reset_seed": s % 1000, "op_mix": {"step": 0.93, "reset": 0.03, "fault": 0.04}, "record_state": True}
        # episode-scheduled directories, reset often enough to come back to file combinations used before and to run
        # past the end of the schedule
        for k, d in enumerate(["mini_scenario_with_simulation_variation", "scenario_with_placeholders", "uc7_multiple_attack_variants"] * (1 if tier == "quick" else 6)):
            s = base_seed * 1000003 + 921000 + k
            yield {"seed": s, "schedule_dir": d, "n_ops": 26 if "uc7" in d else 60, "monitors": ["c20"], "op_mix": {"step": 0.55, "reset": 0.42, "fault": 0.03}, "record_state": True}
        for i in range(n):
            s = base_seed * 1000003 + 200000000 + i
            prof = {"n_green": (0, 2), "n_red": (0, 2), "tight_links": 0.1, "initial_power_off": 0.15, "extra_nic": 0.3, "power_defaults": True, "use_defaults_block": 0.7, "implicit_bandwidth": 0.4, "node_dns": 0.5}
            yield {"seed": s, "profile": prof, "n_ops": 22, "monitors": ["c20"], "first_reset_seed": s % 1000, "op_mix": {"step": 0.85, "reset": 0.06, "fault": 0.09}, "record_state": True}


if __name__ == "__main__":
    sys.exit(main(Spec()))
