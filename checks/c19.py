"""C19 - scripted green/red agents act only when and how their settings allow (E1 driver, history oracles)."""
from __future__ import annotations

import sys
from typing import Dict, Iterable

from dst.run import CheckSpec, main


class Spec(CheckSpec):
    prop = "C19"
    timeout = 300
    rule = (
        "one evaluation = one simulated run: generated scenarios with 1-3 probabilistic green agents (probability "
        "tables with zeros, keys in any order) and 1-3 periodic / database-corrupting red agents (start step, start "
        "variance, frequency, variance < frequency, max executions, start-node lists), or the shipped UC7 scenarios "
        "with TAP001/TAP003 kill chains; blue interference = random blue actions and power/service/application/file "
        "faults. After every step each scripted agent's newest history item and kill-chain stage are checked against "
        "its settings. non-trivial = a periodic agent acted at least twice or a kill-chain stage changed; distinct = "
        "distinct (scenario-shape, op-kind trace) pairs"
    )
    assumptions = ["for TAP agents and the database-corrupting agent only the lower gap bound is asserted (they may legitimately answer do-nothing at a scheduled step)"]
    required_probes = ["c19_periodic_first_action", "c19_periodic_gap_checked", "c19_probabilistic_with_zero_entry", "c19_kill_chain_stage_changed", "c19_tap_stage_with_probability_zero"]

    def budget(self, tier: str) -> float:
        return 120.0 if tier == "quick" else 1500.0

    def nontrivial(self, res: Dict) -> bool:
        p = res.get("probes", {})
        return p.get("c19_periodic_gap_checked", 0) > 0 or p.get("c19_kill_chain_stage_changed", 0) > 0

    def jobs(self, tier: str, base_seed: int) -> Iterable[Dict]:
        n = 500 if tier == "quick" else 10000
        reps = 2 if tier == "quick" else 12
        for rep in range(reps):
            for name in ("uc7_config.yaml", "uc7_config_tap003.yaml"):
                yield {"seed": base_seed * 1000003 + 992000 + rep * 10 + len(name), "shipped": name, "max_episode_length": 128, "n_ops": 110, "monitors": ["c19"], "op_mix": {"step": 0.95, "reset": 0.01, "fault": 0.04}}
        for k in range(24 if tier == "quick" else 300):
            s = base_seed * 1000003 + 993000 + k
            yield {"seed": s, "shipped": "uc7_config.yaml" if k % 2 else "uc7_config_tap003.yaml", "tap_variation": s, "max_episode_length": 100, "n_ops": 90, "monitors": ["c19"], "extra_faults": ["F4_uninstall"] * (2 if k % 3 else 8), "op_mix": {"step": 0.9, "reset": 0.01, "fault": 0.09} if k % 3 else {"step": 0.79, "reset": 0.01, "fault": 0.2}}
        # a quiet defender that removes an application right after a threat actor installed it (inside a multi-action stage)
        for k in range(16 if tier == "quick" else 200):
            s = base_seed * 1000003 + 994000 + k
            yield {"seed": s, "shipped": "uc7_config.yaml" if k % 4 else "uc7_config_tap003.yaml", "tap_variation": s, "max_episode_length": 128, "n_ops": 120, "monitors": ["c19"], "ambush": 0.9 if k % 2 else 0.6, "ambush_mode": "flap" if k % 4 in (1, 2) else "uninstall", "tap_fast": k % 4 != 0, "op_mix": {"step": 0.95, "reset": 0.0, "fault": 0.05}}
        # kill chains that are certain and quick except for one stage with probability 0 (quiet defender)
        for k, (name, stage) in enumerate([("uc7_config_tap003.yaml", "EXPLOIT"), ("uc7_config_tap003.yaml", "MANIPULATION"), ("uc7_config.yaml", "PROPAGATE"), ("uc7_config.yaml", "PAYLOAD")] * (1 if tier == "quick" else 6)):
            s = base_seed * 1000003 + 995000 + k
            yield {"seed": s, "shipped": name, "tap_variation": s, "tap_zero_stage": stage, "max_episode_length": 110, "n_ops": 100, "monitors": ["c19"], "ambush": 0.97, "ambush_mode": "none", "op_mix": {"step": 0.98, "reset": 0.0, "fault": 0.02}}
        for i in range(n):
            seed = base_seed * 1000003 + 190000000 + i
            prof = {"obs": False, "n_green": (1, 3), "n_red": (1, 3), "episode_len": (25, 50), "tight_links": 0.05, "action_map_size": (8, 24)}
            yield {"seed": seed, "profile": prof, "n_ops": 60, "monitors": ["c19"], "op_mix": {"step": 0.86, "reset": 0.03, "fault": 0.11}}
        yield {"seed": base_seed * 1000003 + 992900, "shipped": "data_manipulation.yaml", "max_episode_length": 128, "n_ops": 135, "monitors": ["c19"], "op_mix": {"step": 0.95, "reset": 0.01, "fault": 0.04}}


if __name__ == "__main__":
    sys.exit(main(Spec()))
