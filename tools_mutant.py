"""Seeded-change bookkeeping (not part of any registered check).

  verify <pid> <X>        confirm in a scratch worktree: patch applies, demo fails with it / passes without it, the pinned
                          suite still passes with it; then store it as /verif/seeded/<pid>-<X>/ (patch.diff, demo.py, meta.json)
  detect <seeded-id> <check-module> [...]   apply the patch to /repo, run the checks' quick tier, undo; record detections
"""
import json, os, subprocess, sys, time, shutil

ROOT = os.path.dirname(os.path.abspath(__file__))
SEEDED = os.path.join(ROOT, "seeded")
VWT = os.environ.get("VERIF_MUT_WT", "/tmp/mut/verify_wt")


def sh(cmd, **kw):
    return subprocess.run(cmd, shell=True, capture_output=True, text=True, **kw)


def ensure_wt():
    if not os.path.isdir(VWT):
        r = sh(f"git -C /repo worktree add -q --detach {VWT} HEAD")
        assert r.returncode == 0, r.stderr
    sh(f"git -C {VWT} checkout -q --detach $(git -C /repo rev-parse HEAD) && git -C {VWT} checkout -- . && git -C {VWT} clean -fdq")


def run_demo(demo, wt):
    home = VWT + "_home"
    os.makedirs(home, exist_ok=True)
    env = dict(os.environ, PYTHONPATH=os.path.join(wt, "src"), HOME=home, PYTHONWARNINGS="ignore")
    r = subprocess.run(["/venv/bin/python", demo], capture_output=True, text=True, env=env, cwd=wt, timeout=600)
    return r.returncode, (r.stdout + r.stderr)[-600:]


def verify(pid, x, src_dir=None):
    src_dir = src_dir or f"/tmp/mut/out/{pid}"
    diff, demo = os.path.join(src_dir, f"{x}.diff"), os.path.join(src_dir, f"demo_{x}.py")
    ensure_wt()
    rc0, out0 = run_demo(demo, VWT)
    r = sh(f"git -C {VWT} apply {diff}")
    if r.returncode != 0:
        print("patch does not apply:", r.stderr[:400]); return False
    rc1, out1 = run_demo(demo, VWT)
    b = sh(f"/venv/bin/python /tmp/mut/tools/baseline.py {VWT}")
    base_ok = b.returncode == 0
    sh(f"git -C {VWT} checkout -- . && git -C {VWT} clean -fdq")
    ok = rc0 == 0 and rc1 != 0 and base_ok
    print(f"{pid}-{x}: demo unchanged rc={rc0}, demo changed rc={rc1}, baseline {'pass' if base_ok else 'FAIL'} -> {'KEEP' if ok else 'REJECT'}")
    if not ok:
        print(out0[-300:], "\n---\n", out1[-300:], "\n---\n", b.stdout[-400:])
        return False
    d = os.path.join(SEEDED, f"{pid}-{x}")
    os.makedirs(d, exist_ok=True)
    shutil.copy(diff, os.path.join(d, "patch.diff"))
    shutil.copy(demo, os.path.join(d, "demo.py"))
    notes = ""
    if os.path.exists(os.path.join(src_dir, "notes.md")):
        notes = open(os.path.join(src_dir, "notes.md")).read()
        shutil.copy(os.path.join(src_dir, "notes.md"), os.path.join(d, "author_notes.md"))
    meta = {
        "id": f"{pid}-{x}", "property": pid,
        "needs_to_manifest": "see author_notes.md (section for change %s)" % x,
        "verified": {"repo_head": sh("git -C /repo rev-parse --short HEAD").stdout.strip(), "demo_rc_unchanged": rc0, "demo_rc_changed": rc1, "baseline_526_pass_with_change": base_ok,
                     "commands": [f"git -C {VWT} apply patch.diff", f"PYTHONPATH={VWT}/src /venv/bin/python demo.py", f"/venv/bin/python /tmp/mut/tools/baseline.py {VWT}"]},
        "detections": {},
    }
    json.dump(meta, open(os.path.join(d, "meta.json"), "w"), indent=1)
    return True


def detect(sid, modules, tier="quick", extra=""):
    d = os.path.join(SEEDED, sid)
    meta = json.load(open(os.path.join(d, "meta.json")))
    st = sh("git -C /repo status --porcelain")
    assert st.stdout.strip() == "", "/repo working tree not clean: " + st.stdout
    r = sh(f"git -C /repo apply {os.path.join(d, 'patch.diff')}")
    if r.returncode != 0:
        print("patch does not apply to /repo:", r.stderr[:300]); return
    try:
        for mod in modules:
            t = time.time()
            p = sh(f"cd {ROOT} && PYTHONPATH={ROOT} timeout 1500 /venv/bin/python -m {mod} --tier {tier} {extra}")
            viol = [l for l in p.stdout.splitlines() if l.startswith("VIOLATION")]
            det = [l.strip() for l in p.stdout.splitlines() if l.startswith("  ") and viol][:3]
            meta["detections"][mod] = {"exit": p.returncode, "violations": viol[:3], "first": det[:2], "wall_s": round(time.time() - t), "tier": tier}
            print(f"{sid} x {mod}: exit {p.returncode} {'DETECTED' if p.returncode == 1 else 'missed' if p.returncode == 0 else 'HARNESS?'}  {det[:1]}")
            if p.returncode not in (0, 1):
                print(p.stdout[-800:])
    finally:
        sh("git -C /repo checkout -- . && git -C /repo clean -fdq src")
        sh(f"rm -rf {ROOT}/replays/*")
    json.dump(meta, open(os.path.join(d, "meta.json"), "w"), indent=1)


if __name__ == "__main__":
    if sys.argv[1] == "verify":
        verify(sys.argv[2], sys.argv[3], *(sys.argv[4:5]))
    elif sys.argv[1] == "detect":
        detect(sys.argv[2], sys.argv[3:])
